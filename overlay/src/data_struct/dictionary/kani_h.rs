//! Contracts on `Dict` (order-preserving dictionary behind hierarchical dimensions), K = u8, V = u8.
//! Keys and positions are concrete (one obligation per position), values symbolic.
use super::*;
use crate::kani_verif::*;

/// representation invariant: `indices` is exactly the inverse of `entries`
fn wf(d: &Dict<u8, u8>) -> bool {
    if d.indices.len() != d.entries.len() {
        return false;
    }
    let mut i = 0;
    while i < d.entries.len() {
        match d.indices.get(&d.entries[i].0) {
            Some(j) => {
                if *j != i {
                    return false;
                }
            }
            None => return false,
        }
        i += 1;
    }
    true
}

const K: [u8; 3] = [10, 20, 30];
const NK: u8 = 40;

fn pre3(v: [u8; 3]) -> Dict<u8, u8> {
    let mut d = Dict::new();
    d.insert(K[0], v[0]);
    d.insert(K[1], v[1]);
    d.insert(K[2], v[2]);
    d
}

macro_rules! dict_insert_contract {
    ($name:ident, $p:expr) => {
        kproof! {
            #[kani::unwind(10)]
            fn $name() {
                let v: [u8; 3] = kani::any();
                let mut d = pre3(v);
                assert!(wf(&d) && d.len() == 3, "C03: insertion builds a well-formed dictionary");
                assert!(d.entries[0] == (K[0], v[0]) && d.entries[1] == (K[1], v[1]) && d.entries[2] == (K[2], v[2]), "C03: insertion order is the iteration order");
                let p: usize = $p;
                let w: u8 = kani::any();
                let old = d.insert(K[p], w);
                assert!(old == Some(v[p]) && wf(&d) && d.len() == 3, "C03: inserting an existing key overwrites in place");
                assert!(d.entries[p] == (K[p], w), "C03: the overwritten entry keeps its rank");
                let q = (p + 1) % 3;
                let r = (p + 2) % 3;
                assert!(d.entries[q] == (K[q], v[q]) && d.entries[r] == (K[r], v[r]), "C03: other entries untouched");
                let none = d.insert(NK, w);
                assert!(none.is_none() && wf(&d) && d.len() == 4 && d.entries[3] == (NK, w), "C03: a new key is appended last");
                assert!(d.get(&NK) == Some(&w) && d.get(&K[q]) == Some(&v[q]) && d.contains_key(&K[r]), "C03: lookups agree with the entries");
            }
        }
    };
}
// @obl props=C03 tier=quick class=bounded fn=data_struct::Dict::insert shape="3 entries, overwrite rank 0, append"
dict_insert_contract!(dict__insert_p0, 0);
// @obl props=C03 tier=thorough class=bounded fn=data_struct::Dict::insert shape="3 entries, overwrite rank 2, append"
dict_insert_contract!(dict__insert_p2, 2);

macro_rules! dict_remove_contract {
    ($name:ident, $p:expr, $q:expr, $r:expr) => {
        kproof! {
            #[kani::unwind(10)]
            fn $name() {
                let v: [u8; 3] = kani::any();
                let mut d = pre3(v);
                let (p, q, r): (usize, usize, usize) = ($p, $q, $r);
                let got = d.remove(&K[p]);
                assert!(got == Some(v[p]), "C03: remove returns the value of the removed key");
                assert!(wf(&d) && d.len() == 2, "C02/C03/C05/C09: remove keeps the index map the inverse of the entries (a stale index makes a name resolve to a higher attribute, or to none: a spurious not-found error)");
                assert!(d.entries[0] == (K[q], v[q]) && d.entries[1] == (K[r], v[r]), "C03: the relative order and content of the other entries is unchanged");
                assert!(d.get(&K[q]) == Some(&v[q]) && d.get(&K[r]) == Some(&v[r]) && d.get(&K[p]).is_none() && !d.contains_key(&K[p]), "C03: lookups after removal");
                assert!(d.remove(&NK).is_none() && wf(&d) && d.len() == 2, "C03: removing an absent key is a no-op");
            }
        }
    };
}
// @obl props=C02,C03,C05,C09 tier=quick class=bounded fn=data_struct::Dict::remove shape="3 entries, remove rank 0"
dict_remove_contract!(dict__remove_p0, 0, 1, 2);
// @obl props=C02,C03,C05,C09 tier=quick class=bounded fn=data_struct::Dict::remove shape="3 entries, remove rank 1"
dict_remove_contract!(dict__remove_p1, 1, 0, 2);
// @obl props=C02,C03,C05,C09 tier=quick class=bounded fn=data_struct::Dict::remove shape="3 entries, remove rank 2"
dict_remove_contract!(dict__remove_p2, 2, 0, 1);

macro_rules! dict_rename_contract {
    ($name:ident, $p:expr) => {
        kproof! {
            #[kani::unwind(10)]
            fn $name() {
                let v: [u8; 3] = kani::any();
                let mut d = pre3(v);
                let p: usize = $p;
                let ok = !is_err_forget(d.update_key(&K[p], NK));
                assert!(ok, "C09: renaming an existing key to an unused key succeeds");
                assert!(wf(&d) && d.len() == 3, "C03: update_key keeps the dictionary well-formed");
                let q = (p + 1) % 3;
                let r = (p + 2) % 3;
                assert!(d.entries[p] == (NK, v[p]), "C03: the renamed entry keeps its rank and value");
                assert!(d.entries[q] == (K[q], v[q]) && d.entries[r] == (K[r], v[r]), "C03: other entries untouched");
                assert!(d.get(&NK) == Some(&v[p]) && d.get(&K[p]).is_none(), "C03: lookups follow the rename");
            }
        }
    };
}
// @obl props=C03,C09 tier=quick class=bounded fn=data_struct::Dict::update_key shape="3 entries, rename rank 0"
dict_rename_contract!(dict__rename_p0, 0);
// @obl props=C03,C09 tier=quick class=bounded fn=data_struct::Dict::update_key shape="3 entries, rename rank 1"
dict_rename_contract!(dict__rename_p1, 1);
// @obl props=C03,C09 tier=thorough class=bounded fn=data_struct::Dict::update_key shape="3 entries, rename rank 2"
dict_rename_contract!(dict__rename_p2, 2);

// @obl props=C09,C10 tier=quick class=bounded fn=data_struct::Dict::update_key shape="3 entries, refused renames (old missing, new exists, new == old)"
kproof! {
    #[kani::unwind(10)]
    fn dict__rename_refused() {
        let v: [u8; 3] = kani::any();
        let mut d = pre3(v);
        let e1 = is_err_forget(d.update_key(&NK, 50));
        let e2 = is_err_forget(d.update_key(&K[0], K[2]));
        let e3 = is_err_forget(d.update_key(&K[1], K[1]));
        assert!(e1, "C09: renaming a missing key is refused");
        assert!(e2, "C09: renaming to an existing key is refused");
        assert!(e3, "C09: renaming a key to itself is refused (name already used)");
        assert!(wf(&d) && d.len() == 3, "C10: refused renames keep the dictionary well-formed");
        assert!(d.entries[0] == (K[0], v[0]) && d.entries[1] == (K[1], v[1]) && d.entries[2] == (K[2], v[2]), "C10: a refused rename changes nothing");
    }
}
