//! Contracts on `RevisionMap` (discharged at K = u8, V = u8; generic code, see DESIGN §2 "parametricity").
//! Keys are concrete, values symbolic; chains are read destructively and loop-free (`pop4`).
use super::*;
use crate::kani_verif::*;

const K1: u8 = 11;
const K2: u8 = 22;
const K3: u8 = 33;

/// the chain of `k` (first four elements, newest first), read loop-free
fn take(m: &mut RevisionMap<u8, u8>, k: u8) -> [Option<u8>; 4] {
    match m.get(&k) {
        Some(l) => view4(l),
        None => [None, None, None, None],
    }
}

/// pre-state: K1 -> [a1, a0] (newest first), K2 -> [b0]
fn pre(a0: u8, a1: u8, b0: u8) -> RevisionMap<u8, u8> {
    let mut m = RevisionMap::new();
    m.insert(K1, a0);
    m.insert(K2, b0);
    m.insert(K1, a1);
    m
}

// @obl props=C04,C05 tier=quick class=bounded fn=data_struct::RevisionMap::insert shape="2 keys, chains (2,1), insert into existing chain"
kproof! {
    #[kani::unwind(10)]
    fn revmap__insert_existing() {
        let (a0, a1, b0, v): (u8, u8, u8, u8) = (kani::any(), kani::any(), kani::any(), kani::any());
        let mut m = pre(a0, a1, b0);
        m.insert(K1, v);
        assert!(m.len() == 2, "C04: insert into an existing chain adds no key");
        assert!(m.get_latest(&K1) == Some(&v) && m.get_latest(&K2) == Some(&b0), "C04: get_latest is the front; the inserted value is the new front");
        assert!(m.chain_length(&K1) == 3 && m.chain_length(&K2) == 1, "C04: exactly one element is added to one chain");
        let c1 = take(&mut m, K1);
        let c2 = take(&mut m, K2);
        assert!(c1 == [Some(v), Some(a1), Some(a0), None], "C04/C05: chain' = [v] ++ chain (older values keep their order)");
        assert!(c2 == [Some(b0), None, None, None], "C04: other chains untouched");
    }
}

// @obl props=C04 tier=quick class=bounded fn=data_struct::RevisionMap::insert shape="2 keys, insert under a new key"
kproof! {
    #[kani::unwind(10)]
    fn revmap__insert_new_key() {
        let (a0, a1, b0, v): (u8, u8, u8, u8) = (kani::any(), kani::any(), kani::any(), kani::any());
        let mut m = pre(a0, a1, b0);
        assert!(!m.contains_key(&K3) && m.get_latest(&K3).is_none() && m.chain_length(&K3) == 0, "C04: absent key");
        m.insert(K3, v);
        assert!(m.len() == 3 && m.contains_key(&K3), "C04: a new chain is created");
        let c3 = take(&mut m, K3);
        let c1 = take(&mut m, K1);
        let c2 = take(&mut m, K2);
        assert!(c3 == [Some(v), None, None, None], "C04: new chain = [v]");
        assert!(c1 == [Some(a1), Some(a0), None, None] && c2 == [Some(b0), None, None, None], "C04: other chains untouched");
    }
}

macro_rules! revmap_keep_contract {
    ($name:ident, $n:expr) => {
        kproof! {
            #[kani::unwind(10)]
            fn $name() {
                let (a0, a1, a2, b0): (u8, u8, u8, u8) = (kani::any(), kani::any(), kani::any(), kani::any());
                let mut m = pre(a0, a1, b0);
                m.insert(K1, a2); // K1 -> [a2, a1, a0]
                let n: usize = $n;
                let removed = match m.keep(&K1, n) { Some(it) => { let mut l: LinkedList<u8> = it.collect(); Some(pop4(&mut l)) } None => None };
                let none = m.keep(&K3, 1).is_none();
                assert!(none && m.len() == 2, "C05: keep on an absent key is a no-op");
                let c1 = take(&mut m, K1);
                let c2 = take(&mut m, K2);
                let all = [Some(a2), Some(a1), Some(a0), None];
                if n <= 3 {
                    let removed = removed.unwrap();
                    let mut i = 0;
                    while i < 4 {
                        assert!(c1[i] == if i < n { all[i] } else { None }, "C05: keep(k, n) leaves exactly the n newest values, in order");
                        assert!(removed[i] == if i + n < 4 { all[i + n] } else { None }, "C05: keep returns the removed (older) values, in order");
                        i += 1;
                    }
                } else {
                    assert!(removed.is_none() && c1 == all, "C05: keep with n > len changes nothing");
                }
                assert!(c2 == [Some(b0), None, None, None], "C05: other chains untouched");
            }
        }
    };
}
// @obl props=C05 tier=quick class=bounded fn=data_struct::RevisionMap::keep shape="chain of 3, keep 1 (the prune case)"
revmap_keep_contract!(revmap__keep_1, 1);
// @obl props=C05 tier=thorough class=bounded fn=data_struct::RevisionMap::keep shape="chain of 3, keep 0"
revmap_keep_contract!(revmap__keep_0, 0);
// @obl props=C05 tier=thorough class=bounded fn=data_struct::RevisionMap::keep shape="chain of 3, keep 3"
revmap_keep_contract!(revmap__keep_3, 3);
// @obl props=C05 tier=thorough class=bounded fn=data_struct::RevisionMap::keep shape="chain of 3, keep 4 (> len)"
revmap_keep_contract!(revmap__keep_4, 4);

macro_rules! revmap_retain_contract {
    ($name:ident, $keep1:expr, $keep2:expr) => {
        kproof! {
            #[kani::unwind(10)]
            fn $name() {
                let (a0, a1, b0): (u8, u8, u8) = (kani::any(), kani::any(), kani::any());
                let (keep1, keep2): (bool, bool) = ($keep1, $keep2);
                let mut m = pre(a0, a1, b0);
                m.retain(|k| if *k == K1 { keep1 } else { keep2 });
                assert!(m.contains_key(&K1) == keep1 && m.contains_key(&K2) == keep2, "C03/C05: retain keeps exactly the keys satisfying the predicate");
                assert!(m.len() == (keep1 as usize) + (keep2 as usize), "C03/C05: retain removes whole chains only");
                let c1 = take(&mut m, K1);
                let c2 = take(&mut m, K2);
                assert!(c1 == if keep1 { [Some(a1), Some(a0), None, None] } else { [None, None, None, None] }, "C03/C05: retained chains are untouched");
                assert!(c2 == if keep2 { [Some(b0), None, None, None] } else { [None, None, None, None] }, "C03/C05: retained chains are untouched");
            }
        }
    };
}
// @obl props=C03,C05 tier=quick class=bounded fn=data_struct::RevisionMap::retain shape="chains (2,1), first key dropped"
revmap_retain_contract!(revmap__retain_drop_first, false, true);
// @obl props=C03,C05 tier=quick class=bounded fn=data_struct::RevisionMap::retain shape="chains (2,1), second key dropped"
revmap_retain_contract!(revmap__retain_drop_second, true, false);
// @obl props=C03,C05 tier=thorough class=bounded fn=data_struct::RevisionMap::retain shape="chains (2,1), all kept / all dropped"
kproof! {
    #[kani::unwind(10)]
    fn revmap__retain_all_none() {
        let (a0, a1, b0): (u8, u8, u8) = (kani::any(), kani::any(), kani::any());
        let mut m = pre(a0, a1, b0);
        m.retain(|_| true);
        assert!(m.len() == 2 && take(&mut m, K1) == [Some(a1), Some(a0), None, None] && take(&mut m, K2) == [Some(b0), None, None, None], "C03/C05: retain(true) changes nothing");
        m.retain(|_| false);
        assert!(m.is_empty() && m.count_elements() == 0, "C03/C05: retain(false) empties the map");
    }
}
