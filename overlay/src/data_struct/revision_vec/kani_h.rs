//! Contracts on `RevisionVec::revisions` / `RevisionIterator::next` (K = u8, T = u8).
use super::*;
use crate::kani_verif::*;

fn chain(vals: &[u8]) -> LinkedList<u8> {
    let mut l = LinkedList::new();
    let mut i = 0;
    while i < vals.len() {
        l.push_back(vals[i]);
        i += 1;
    }
    l
}

// @obl props=C04,C01,C14 tier=quick class=bounded fn=data_struct::RevisionIterator::next shape="chains (2,1)"
kproof! {
    #[kani::unwind(4)]
    fn reviter__chains_2_1() {
        let (a, b, c): (u8, u8, u8) = (kani::any(), kani::any(), kani::any());
        let mut rv: RevisionVec<u8, u8> = RevisionVec::new();
        rv.insert_new_chain(1, chain(&[a, b]));
        rv.create_chain_with_single_value(2, c);
        let mut it = rv.revisions();
        let r1 = it.next().unwrap();
        assert!(r1.len() == 2 && *r1[0].0 == 1 && *r1[0].1 == a && *r1[1].0 == 2 && *r1[1].1 == c, "C04/C01: the first revision holds the newest value of every chain");
        let r2 = it.next();
        assert!(r2.is_some(), "C04: older values of a longer chain are still yielded once a shorter chain is exhausted");
        let r2 = r2.unwrap();
        assert!(r2.len() == 1 && *r2[0].0 == 1 && *r2[0].1 == b, "C04: the second revision holds exactly the remaining older value");
        assert!(it.next().is_none(), "C14: the iteration ends once every chain is exhausted");
    }
}

// @obl props=C04,C01,C14 tier=quick class=bounded fn=data_struct::RevisionIterator::next shape="chains (1,3,2)"
kproof! {
    #[kani::unwind(5)]
    fn reviter__chains_1_3_2() {
        let v: [u8; 6] = kani::any();
        let mut rv: RevisionVec<u8, u8> = RevisionVec::new();
        rv.create_chain_with_single_value(1, v[0]);
        rv.insert_new_chain(2, chain(&[v[1], v[2], v[3]]));
        rv.insert_new_chain(3, chain(&[v[4], v[5]]));
        let mut it = rv.revisions();
        let r1 = it.next().unwrap();
        assert!(r1.len() == 3 && *r1[0].0 == 1 && *r1[0].1 == v[0] && *r1[1].0 == 2 && *r1[1].1 == v[1] && *r1[2].0 == 3 && *r1[2].1 == v[4], "C04/C01: the first revision holds the newest value of every chain");
        let r2 = it.next();
        assert!(r2.is_some(), "C04: older values of longer chains are still yielded once a shorter chain is exhausted");
        let r2 = r2.unwrap();
        assert!(r2.len() == 2 && *r2[0].0 == 2 && *r2[0].1 == v[2] && *r2[1].0 == 3 && *r2[1].1 == v[5], "C04: the second revision holds the second value of every chain that has one");
        let r3 = it.next();
        assert!(r3.is_some(), "C04: the oldest value of the longest chain is yielded");
        let r3 = r3.unwrap();
        assert!(r3.len() == 1 && *r3[0].0 == 2 && *r3[0].1 == v[3], "C04: the third revision holds exactly the oldest value of the longest chain");
        assert!(it.next().is_none(), "C14: the iteration ends once every chain is exhausted");
    }
}

// @obl props=C14 tier=quick class=proved fn=data_struct::RevisionIterator::next shape="no chain"
kproof! {
    #[kani::unwind(10)]
    fn reviter__no_chain() {
        let rv: RevisionVec<u8, u8> = RevisionVec::new();
        let mut it = rv.revisions();
        assert!(it.next().is_none(), "C14: iterating over zero chains ends immediately");
        assert!(rv.is_empty() && rv.len() == 0 && rv.count_elements() == 0, "C14: empty structure accessors");
    }
}

// @obl props=C13,C04 tier=quick class=bounded fn=data_struct::RevisionVec::insert_new_chain shape="3 insertions incl. an empty chain"
kproof! {
    #[kani::unwind(10)]
    fn revvec__insert_iter() {
        let (a, b, c): (u8, u8, u8) = (kani::any(), kani::any(), kani::any());
        let mut rv: RevisionVec<u8, u8> = RevisionVec::new();
        rv.insert_new_chain(7, chain(&[a, b]));
        rv.insert_new_chain(8, chain(&[]));
        rv.create_chain_with_single_value(9, c);
        assert!(rv.len() == 2 && rv.count_elements() == 3, "C13: empty chains are not stored; others are appended in order");
        let mut it = rv.iter();
        let (k1, l1) = it.next().unwrap();
        let (k2, l2) = it.next().unwrap();
        assert!(it.next().is_none() && *k1 == 7 && *k2 == 9, "C13/C04: chains are iterated in insertion order");
        assert!(l1.len() == 2 && *l1.front().unwrap() == a && *l1.back().unwrap() == b && l2.len() == 1 && *l2.front().unwrap() == c, "C13/C04: chain contents preserved, newest first");
    }
}
