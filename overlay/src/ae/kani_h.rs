//! Contract on the framing test of `AE::decrypt` for `Aes256Gcm` (the AEAD itself is trusted and not executed).
use super::*;
use crate::kani_verif::*;

// @obl props=C12,C14 tier=quick class=proved fn=ae::decrypt shape="every ciphertext shorter than a nonce (lengths 0..=11, symbolic bytes): Err, never a panic" loops="zeroize=34;volatile_set=34"
kproof! {
    #[kani::unwind(14)]
    fn ae__short_ciphertext_is_an_error() {
        let buf: [u8; 11] = kani::any();
        let len: usize = kani::any();
        kani::assume(len <= 11);
        let k: [u8; 32] = kani::any();
        let key = SymmetricKey::<32>::try_from_bytes(k).unwrap_or_else(|e| { std::mem::forget(e); panic!("key") });
        let r = <Aes256Gcm as AE<32>>::decrypt(&key, &buf[..len]);
        assert!(is_err_forget(r), "C12: a ciphertext shorter than the nonce yields an error (never a panic, never data)");
        std::mem::forget(key);
    }
}
