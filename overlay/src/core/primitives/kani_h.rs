//! Contracts on the functions of `core/primitives.rs` (child module: private items reachable).
//!
//! Conventions (see DESIGN.md §3.5): one call per harness on a directly
//! constructed pre-state; shapes are concrete, values symbolic; a clause is an
//! `assert!` whose message starts with the ids of the properties it carries;
//! `Result`s are consumed with `ok_or_forget`/`err_kind` (never dropped).
#![allow(non_snake_case)]
use super::*;
use crate::core::kani_h::*;
use crate::kani_verif::*;

// ---------------------------------------------------------------------------
// rekey(rng, msk, rights)
//   Ok  => for r in rights: chain' = [fresh] ++ chain, fresh.activated = front.activated (C06),
//          fresh.flavour = front.flavour (C11); every other right unchanged
//   Err <=> some r not held by the master key (C09); Err => msk' == msk (C10)
// ---------------------------------------------------------------------------

macro_rules! rekey_ok_contract {
    ($name:ident, $hyb1:expr) => {
        kproof! {
            #[kani::unwind(10)]
            fn $name() {
                let mut rng = SymRng;
                let (r1, r2) = (right(&[1]), right(&[2]));
                let act1: bool = kani::any();
                let act2: bool = kani::any();
                let k1 = if $hyb1 { hybrid(any_u251(), kani::any()) } else { classic(any_u251()) };
                let k2 = classic(any_u251());
                let mut msk = mk_msk(mk_tsk0(1), false);
                msk.secrets.insert(r1.clone(), (act1, k1.clone()));
                msk.secrets.insert(r2.clone(), (act2, k2.clone()));
                let mut set = HashSet::new();
                set.insert(r1.clone());
                let ok = ok_or_forget(rekey(&mut rng, &mut msk, set)).is_some();
                kani::cover!(ok && !act1, "a deactivated right can be re-keyed");
                assert!(ok, "C09: rekey of a right held by the master key succeeds");
                assert!(msk.secrets.chain_length(&r1) == 2, "C04: chain' = [fresh] ++ chain");
                assert!(msk_at(&msk, &r1, 1).unwrap().1 == k1, "C04/C05: the old front is kept right behind the fresh one");
                assert!(msk_at(&msk, &r1, 1).unwrap().0 == act1, "C06: the old secret keeps its flag");
                assert!(msk_at(&msk, &r1, 0).unwrap().0 == act1, "C06: the fresh front keeps the activation flag");
                assert!(msk_at(&msk, &r1, 0).unwrap().1.is_hybridized() == $hyb1, "C11: the fresh front keeps the flavour");
                assert!(msk.secrets.chain_length(&r2) == 1, "C04: frame, other rights untouched");
                assert!(*msk_at(&msk, &r2, 0).unwrap() == (act2, k2), "C04/C06: frame, other rights untouched");
                assert!(msk.secrets.len() == 2, "C04: frame, no right added or removed");
                std::mem::forget(msk);
            }
        }
    };
}
// @obl props=C04,C05,C06,C09,C11 tier=quick class=bounded fn=core::primitives::rekey shape="2 rights x 1 revision, re-keyed right classic"
rekey_ok_contract!(rekey__ok__classic, false);
// @obl props=C04,C05,C06,C09,C11 tier=quick class=bounded fn=core::primitives::rekey shape="2 rights x 1 revision, re-keyed right hybridized"
rekey_ok_contract!(rekey__ok__hybridized, true);

macro_rules! rekey_err_contract {
    ($name:ident, $unknown_first:expr) => {
        kproof! {
            #[kani::unwind(10)]
            fn $name() {
                let mut rng = SymRng;
                let (r1, r2, r3) = (right(&[1]), right(&[2]), right(&[3]));
                let act1: bool = kani::any();
                let act2: bool = kani::any();
                let k1 = classic(any_u251());
                let k2 = classic(any_u251());
                let mut msk = mk_msk(mk_tsk0(1), false);
                msk.secrets.insert(r1.clone(), (act1, k1.clone()));
                msk.secrets.insert(r2.clone(), (act2, k2.clone()));
                // the set holds one right of the master key and one it does not hold, in both orders
                let mut set = HashSet::new();
                if $unknown_first { set.insert(r3.clone()); set.insert(r1.clone()); } else { set.insert(r1.clone()); set.insert(r3.clone()); }
                let e = err_kind(rekey(&mut rng, &mut msk, set));
                assert!(e == E_NOT_PERMITTED, "C09: rekey fails (OperationNotPermitted) when a right is not held by the master key");
                assert!(msk.secrets.len() == 2, "C10: failed rekey leaves the set of rights untouched");
                assert!(msk.secrets.chain_length(&r1) == 1 && msk.secrets.chain_length(&r2) == 1, "C10: failed rekey rotates nothing");
                assert!(*msk_at(&msk, &r1, 0).unwrap() == (act1, k1), "C10: failed rekey leaves every secret untouched");
                assert!(*msk_at(&msk, &r2, 0).unwrap() == (act2, k2), "C10: failed rekey leaves every secret untouched");
                std::mem::forget(msk);
            }
        }
    };
}
// @obl props=C09,C10 tier=quick class=bounded fn=core::primitives::rekey shape="2 rights; set = {unknown, known}"
rekey_err_contract!(rekey__err_unknown_first, true);
// @obl props=C09,C10 tier=quick class=bounded fn=core::primitives::rekey shape="2 rights; set = {known, unknown}"
rekey_err_contract!(rekey__err_unknown_last, false);
