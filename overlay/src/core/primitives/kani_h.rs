//! Contracts on the functions of `core/primitives.rs` (child module: private items reachable).
//!
//! Conventions (see DESIGN.md §3.5): one call per harness on a directly
//! constructed pre-state; shapes are concrete, values symbolic; a clause is an
//! `assert!` whose message starts with the ids of the properties it carries;
//! `Result`s are consumed with `ok_or_forget`/`err_kind` (never dropped).
#![allow(non_snake_case)]
use super::*;
use crate::core::kani_h::*;
use crate::kani_verif::*;
use crate::core::TracingPublicKey;

// ---------------------------------------------------------------------------
// rekey(rng, msk, rights)
//   Ok  => for r in rights: chain' = [fresh] ++ chain, fresh.activated = front.activated (C06),
//          fresh.flavour = front.flavour (C11); every other right unchanged
//   Err <=> some r not held by the master key (C09); Err => msk' == msk (C10)
// ---------------------------------------------------------------------------

macro_rules! rekey_ok_contract {
    ($name:ident, $hyb1:expr) => {
        kproof! {
            #[kani::unwind(8)]
            fn $name() {
                let mut rng = SymRng;
                let (r1, r2) = (right(&[1]), right(&[2]));
                let act1: bool = kani::any();
                let act2: bool = kani::any();
                let k1 = if $hyb1 { hybrid(any_fe(), kani::any()) } else { classic(any_fe()) };
                let k2 = classic(any_fe());
                let mut msk = mk_msk(mk_tsk0(1), false);
                msk.secrets.insert(r1.clone(), (act1, k1.clone()));
                msk.secrets.insert(r2.clone(), (act2, k2.clone()));
                let mut set = HashSet::new();
                set.insert(r1.clone());
                let ok = ok_or_forget(rekey(&mut rng, &mut msk, set)).is_some();
                kani::cover!(ok && !act1, "a deactivated right can be re-keyed");
                assert!(ok, "C09: rekey of a right held by the master key succeeds");
                assert!(msk.secrets.chain_length(&r1) == 2, "C04: chain' = [fresh] ++ chain");
                assert!(msk_at(&msk, &r1, 1).unwrap().1 == k1, "C04/C05: the old front is kept right behind the fresh one");
                assert!(msk_at(&msk, &r1, 1).unwrap().0 == act1, "C06: the old secret keeps its flag");
                assert!(msk_at(&msk, &r1, 0).unwrap().0 == act1, "C06: the fresh front keeps the activation flag");
                assert!(msk_at(&msk, &r1, 0).unwrap().1.is_hybridized() == $hyb1, "C11: the fresh front keeps the flavour");
                assert!(msk.secrets.chain_length(&r2) == 1, "C04: frame, other rights untouched");
                assert!(*msk_at(&msk, &r2, 0).unwrap() == (act2, k2), "C04/C06: frame, other rights untouched");
                assert!(msk.secrets.len() == 2, "C04: frame, no right added or removed");
                std::mem::forget(msk);
            }
        }
    };
}
// @obl props=C04,C05,C06,C09,C11 tier=quick class=bounded fn=core::primitives::rekey shape="2 rights x 1 revision, re-keyed right classic"
rekey_ok_contract!(rekey__ok__classic, false);
// @obl props=C04,C05,C06,C09,C11 tier=quick class=bounded fn=core::primitives::rekey shape="2 rights x 1 revision, re-keyed right hybridized"
rekey_ok_contract!(rekey__ok__hybridized, true);

// @obl props=C04,C06,C11 tier=quick class=bounded fn=core::primitives::rekey shape="1 right with 2 revisions whose flags and flavours differ (front deactivated classic, older activated hybridized)"
kproof! {
    #[kani::unwind(8)]
    fn rekey__inherits_from_the_newest_revision() {
        let mut rng = SymRng;
        let r1 = right(&[1]);
        let (x_old, x_front, d): (u8, u8, u8) = (any_fe(), any_fe(), kani::any());
        let mut msk = mk_msk(mk_tsk0(1), false);
        msk.secrets.insert(r1.clone(), (true, hybrid(x_old, d)));
        msk.secrets.insert(r1.clone(), (false, classic(x_front)));
        let mut set = HashSet::new();
        set.insert(r1.clone());
        let ok = ok_or_forget(rekey(&mut rng, &mut msk, set)).is_some();
        assert!(ok, "C09: rekey of a right held by the master key succeeds");
        let c = mchain(&msk, &r1);
        assert!(c[0].is_some() && c[3].is_none(), "C04: chain' = [fresh] ++ chain");
        let (a, k) = c[0].clone().unwrap();
        assert!(!a, "C06: the fresh secret inherits the activation flag of the NEWEST secret (a deactivated right stays deactivated even if an older secret is activated)");
        assert!(!k.is_hybridized(), "C11: the fresh secret inherits the flavour of the newest secret");
        assert!(c[1] == Some((false, classic(x_front))) && c[2] == Some((true, hybrid(x_old, d))), "C04: older revisions are kept in order");
        std::mem::forget(msk);
    }
}

macro_rules! rekey_err_contract {
    ($name:ident, $unknown_first:expr) => {
        kproof! {
            #[kani::unwind(8)]
            fn $name() {
                let mut rng = SymRng;
                let (r1, r2, r3) = (right(&[1]), right(&[2]), right(&[3]));
                let act1: bool = kani::any();
                let act2: bool = kani::any();
                let k1 = classic(any_fe());
                let k2 = classic(any_fe());
                let mut msk = mk_msk(mk_tsk0(1), false);
                msk.secrets.insert(r1.clone(), (act1, k1.clone()));
                msk.secrets.insert(r2.clone(), (act2, k2.clone()));
                // the set holds one right of the master key and one it does not hold, in both orders
                let mut set = HashSet::new();
                if $unknown_first { set.insert(r3.clone()); set.insert(r1.clone()); } else { set.insert(r1.clone()); set.insert(r3.clone()); }
                let e = err_kind(rekey(&mut rng, &mut msk, set));
                assert!(e == E_NOT_PERMITTED, "C09: rekey fails (OperationNotPermitted) when a right is not held by the master key");
                assert!(msk.secrets.len() == 2, "C10: failed rekey leaves the set of rights untouched");
                assert!(msk.secrets.chain_length(&r1) == 1 && msk.secrets.chain_length(&r2) == 1, "C10: failed rekey rotates nothing");
                assert!(*msk_at(&msk, &r1, 0).unwrap() == (act1, k1), "C10: failed rekey leaves every secret untouched");
                assert!(*msk_at(&msk, &r2, 0).unwrap() == (act2, k2), "C10: failed rekey leaves every secret untouched");
                std::mem::forget(msk);
            }
        }
    };
}
// @obl props=C09,C10 tier=quick class=bounded fn=core::primitives::rekey shape="2 rights; set = {unknown, known}"
rekey_err_contract!(rekey__err_unknown_first, true);
// @obl props=C09,C10 tier=quick class=bounded fn=core::primitives::rekey shape="2 rights; set = {known, unknown}"
rekey_err_contract!(rekey__err_unknown_last, false);

// ---------------------------------------------------------------------------
// update_msk(rng, msk, omega)
//   Ok  => rights(msk') = keys(omega); kept rights: chain unchanged except front.activated := (status = EncryptDecrypt)
//          and the front loses its KEM key iff the hint is Classic; new rights: one fresh activated secret of the
//          hinted flavour; Err <=> some new right is DecryptOnly (C09); Err => msk' == msk (C10)
// ---------------------------------------------------------------------------

macro_rules! update_msk_ok_contract {
    ($name:ident, $front_hyb:expr, $hint1:expr, $hint4:expr) => {
        kproof! {
            #[kani::unwind(8)]
            fn $name() {
                let mut rng = SymRng;
                let (r1, r2, r4) = (right(&[1]), right(&[2]), right(&[4]));
                let (x1a, x1b, x2, d1): (u8, u8, u8, u8) = (any_fe(), any_fe(), any_fe(), kani::any());
                let (act_old, act_front, enc1): (bool, bool, bool) = (kani::any(), kani::any(), kani::any());
                let front = if $front_hyb { hybrid(x1b, d1) } else { classic(x1b) };
                let mut msk = mk_msk(mk_tsk0(1), false);
                msk.secrets.insert(r1.clone(), (act_old, classic(x1a)));
                msk.secrets.insert(r1.clone(), (act_front, front.clone()));
                msk.secrets.insert(r2.clone(), (true, classic(x2)));
                // omega: r1 kept (hint1, status1), r2 removed, r4 new
                let mut omega = HashMap::new();
                omega.insert(r1.clone(), (hint($hint1), status(enc1)));
                omega.insert(r4.clone(), (hint($hint4), status(true)));
                let ok = ok_or_forget(update_msk(&mut rng, &mut msk, omega)).is_some();
                assert!(ok, "C09: update succeeds when no new right is born disabled");
                assert!(msk.secrets.len() == 2 && msk.secrets.contains_key(&r1) && msk.secrets.contains_key(&r4), "C03/C05: the rights of the master key are exactly those of the structure");
                assert!(!msk.secrets.contains_key(&r2), "C03/C05: rights outside the structure are removed with all their secrets");
                let c1 = mchain(&msk, &r1);
                let c4 = mchain(&msk, &r4);
                let expect_front = if $front_hyb && $hint1 { hybrid(x1b, d1) } else { classic(x1b) };
                assert!(c1[0] == Some((enc1, expect_front)), "C06/C11: the front is activated iff the right is EncryptDecrypt; it keeps its scalar and loses its KEM key iff the hint is Classic");
                assert!(c1[1] == Some((act_old, classic(x1a))) && c1[2].is_none(), "C03/C04: older secrets of a kept right are untouched");
                assert!(c4[0].is_some() && c4[1].is_none(), "C03: a new right gets exactly one secret");
                let (a4, k4) = c4[0].clone().unwrap();
                assert!(a4, "C06: a new right is born activated");
                assert!(k4.is_hybridized() == $hint4, "C11: a new right is hybridized iff its hint says so");
                std::mem::forget(msk);
            }
        }
    };
}
// @obl props=C03,C04,C05,C06,C09,C11 tier=quick class=bounded fn=core::primitives::update_msk shape="kept right (2 revisions, hybridized front, hint hybridized), removed right, new classic right"
update_msk_ok_contract!(update_msk__ok__hyb_kept_hyb, true, true, false);
// @obl props=C03,C04,C05,C06,C09,C11 tier=quick class=bounded fn=core::primitives::update_msk shape="kept right (hybridized front, hint classic: KEM key dropped), new hybridized right"
update_msk_ok_contract!(update_msk__ok__hyb_kept_classic, true, false, true);
// @obl props=C03,C04,C05,C06,C09,C11 tier=thorough class=bounded fn=core::primitives::update_msk shape="kept right (classic front, hint classic), new classic right"
update_msk_ok_contract!(update_msk__ok__classic_kept, false, false, false);

macro_rules! update_msk_err_contract {
    ($name:ident, $bad_first:expr) => {
        kproof! {
            #[kani::unwind(8)]
            fn $name() {
                let mut rng = SymRng;
                let (r1, r2, r4) = (right(&[1]), right(&[2]), right(&[4]));
                let (x1, x2): (u8, u8) = (any_fe(), any_fe());
                let (a1, a2): (bool, bool) = (kani::any(), kani::any());
                let mut msk = mk_msk(mk_tsk0(1), false);
                msk.secrets.insert(r1.clone(), (a1, classic(x1)));
                msk.secrets.insert(r2.clone(), (a2, classic(x2)));
                // omega keeps r1 (possibly disabled: allowed), drops r2, adds r4 which is born disabled (refused)
                let mut omega = HashMap::new();
                if $bad_first { omega.insert(r4.clone(), (hint(false), status(false))); }
                omega.insert(r1.clone(), (hint(false), status(kani::any())));
                if !$bad_first { omega.insert(r4.clone(), (hint(false), status(false))); }
                let e = err_kind(update_msk(&mut rng, &mut msk, omega));
                assert!(e == E_NOT_PERMITTED, "C06/C09: adding a right that is born disabled is refused (OperationNotPermitted): it never receives an activated secret, hence no public key");
                assert!(msk.secrets.len() == 2, "C10: a failed update loses no right");
                assert!(mchain(&msk, &r1) == [Some((a1, classic(x1))), None, None, None], "C10: a failed update leaves every secret and flag untouched");
                assert!(mchain(&msk, &r2) == [Some((a2, classic(x2))), None, None, None], "C10: a failed update removes nothing");
                assert!(!msk.secrets.contains_key(&r4), "C06/C10: a failed update adds nothing (in particular no activated secret for a right involving a disabled attribute)");
                std::mem::forget(msk);
            }
        }
    };
}
// @obl props=C06,C09,C10 tier=quick class=bounded fn=core::primitives::update_msk shape="2 rights; omega = {born-disabled new, kept}"
update_msk_err_contract!(update_msk__err_born_disabled_first, true);
// @obl props=C06,C09,C10 tier=quick class=bounded fn=core::primitives::update_msk shape="2 rights; omega = {kept, born-disabled new}"
update_msk_err_contract!(update_msk__err_born_disabled_last, false);

// ---------------------------------------------------------------------------
// prune(msk, rights): chain' = [front] for every listed right held by the master key; everything else unchanged
// ---------------------------------------------------------------------------

// @obl props=C05,C06 tier=quick class=bounded fn=core::primitives::prune shape="right with 3 revisions pruned, right with 2 revisions not listed, unknown right listed"
kproof! {
    #[kani::unwind(8)]
    fn prune__keeps_exactly_the_front() {
        let (r1, r2, r9) = (right(&[1]), right(&[2]), right(&[9]));
        let x: [u8; 5] = kani::any();
        kani::assume((x[0] as u32) < crate::core::nike::toy_p() && (x[1] as u32) < crate::core::nike::toy_p() && (x[2] as u32) < crate::core::nike::toy_p() && (x[3] as u32) < crate::core::nike::toy_p() && (x[4] as u32) < crate::core::nike::toy_p());
        let f: [bool; 5] = kani::any();
        let mut msk = mk_msk(mk_tsk0(1), false);
        msk.secrets.insert(r1.clone(), (f[0], classic(x[0])));
        msk.secrets.insert(r1.clone(), (f[1], hybrid(x[1], 7)));
        msk.secrets.insert(r1.clone(), (f[2], classic(x[2])));
        msk.secrets.insert(r2.clone(), (f[3], classic(x[3])));
        msk.secrets.insert(r2.clone(), (f[4], classic(x[4])));
        let mut set = HashSet::new();
        set.insert(r9.clone());
        set.insert(r1.clone());
        prune(&mut msk, &set);
        assert!(mchain(&msk, &r1) == [Some((f[2], classic(x[2]))), None, None, None], "C05/C06: a pruned right keeps exactly its newest secret, flag and flavour included");
        assert!(mchain(&msk, &r2) == [Some((f[4], classic(x[4]))), Some((f[3], classic(x[3]))), None, None], "C05: rights that are not listed are untouched");
        assert!(msk.secrets.len() == 2, "C05: prune adds or removes no right");
        std::mem::forget(msk);
    }
}

// ---------------------------------------------------------------------------
// refresh_coordinate_keys(msk, user chains)
//   per right: dropped iff absent from the master key; else result = (master secrets newer than the user's newest)
//   ++ (the user's secrets still in the master chain, in master order); always a sub-sequence of the master chain (C05),
//   begins with the master front (C04), never gains secrets older than the user's own (C05)
// ---------------------------------------------------------------------------

macro_rules! refresh_chain_contract {
    ($name:ident, master = [$($m:expr),*], user = [$($u:expr),*], expect = [$($e:expr),*]) => {
        kproof! {
            #[kani::unwind(8)]
            fn $name() {
                // four pairwise distinct secrets t[1] (oldest) .. t[4] (newest): the fresh-draw assumption
                let t: [u8; 5] = kani::any();
                kani::assume((t[1] as u32) < crate::core::nike::toy_p() && (t[2] as u32) < crate::core::nike::toy_p() && (t[3] as u32) < crate::core::nike::toy_p() && (t[4] as u32) < crate::core::nike::toy_p());
                kani::assume(t[1] != t[2] && t[1] != t[3] && t[1] != t[4] && t[2] != t[3] && t[2] != t[4] && t[3] != t[4]);
                let (r1, r2) = (right(&[1]), right(&[2]));
                let mut msk = mk_msk(mk_tsk0(1), false);
                let master: &[usize] = &[$($m),*];
                let mut i = master.len();
                while i > 0 { i -= 1; msk.secrets.insert(r1.clone(), (kani::any(), classic(t[master[i]]))); }
                let mut chain = LinkedList::new();
                $( chain.push_back(classic(t[$u])); )*
                let mut other = LinkedList::new();
                other.push_back(classic(t[1]));
                let mut usk: RevisionVec<Right, RightSecretKey> = RevisionVec::new();
                usk.insert_new_chain(r2.clone(), other); // a right the master key does not hold
                usk.insert_new_chain(r1.clone(), chain);
                let out = refresh_coordinate_keys(&msk, usk);
                let expect: &[usize] = &[$($e),*];
                if expect.is_empty() {
                    assert!(out.len() == 0, "C05: rights unknown to the master key are dropped");
                } else {
                    assert!(out.len() == 1, "C05: rights unknown to the master key are dropped, the others are kept");
                    let (k, c) = uchain(&out, 0).unwrap();
                    assert!(k == r1, "C04: the refreshed chain stays attached to its right");
                    let mut j = 0;
                    while j < 4 {
                        let want = if j < expect.len() { Some(classic(t[expect[j]])) } else { None };
                        assert!(c[j] == want, "C04/C05/C06: refreshed chain = master secrets newer than the user's newest ++ user secrets still in the master key (a sub-sequence of the master chain starting at its front), whatever their activation flags");
                        j += 1;
                    }
                }
                std::mem::forget(msk);
                std::mem::forget(out);
            }
        }
    };
}
// @obl props=C04,C05,C06 tier=quick class=bounded fn=core::primitives::refresh_coordinate_keys shape="master [t3,t2,t1], user [t2,t1]"
refresh_chain_contract!(refresh_chain__behind_by_one, master = [3, 2, 1], user = [2, 1], expect = [3, 2, 1]);
// @obl props=C04,C05,C06 tier=quick class=bounded fn=core::primitives::refresh_coordinate_keys shape="master [t3,t2] (t1 pruned), user [t2,t1]"
refresh_chain_contract!(refresh_chain__oldest_pruned, master = [3, 2], user = [2, 1], expect = [3, 2]);
// @obl props=C04,C05,C06 tier=quick class=bounded fn=core::primitives::refresh_coordinate_keys shape="master [t4,t3] (all user secrets pruned), user [t2,t1]"
refresh_chain_contract!(refresh_chain__all_pruned, master = [4, 3], user = [2, 1], expect = [4, 3]);
// @obl props=C04,C05,C06 tier=quick class=bounded fn=core::primitives::refresh_coordinate_keys shape="master [t3,t2,t1], user [t2] (issued after t1)"
refresh_chain_contract!(refresh_chain__no_older_gain, master = [3, 2, 1], user = [2], expect = [3, 2]);
// @obl props=C04,C05 tier=thorough class=bounded fn=core::primitives::refresh_coordinate_keys shape="master [t2,t1], user [t2,t1] (up to date)"
refresh_chain_contract!(refresh_chain__up_to_date, master = [2, 1], user = [2, 1], expect = [2, 1]);
// @obl props=C04,C05 tier=thorough class=bounded fn=core::primitives::refresh_coordinate_keys shape="master [t4], user [t3,t2,t1] (pruned after rekey)"
refresh_chain_contract!(refresh_chain__pruned_to_front, master = [4], user = [3, 2, 1], expect = [4]);
// @obl props=C04,C05,C06 tier=quick class=bounded fn=core::primitives::refresh_coordinate_keys shape="master [t2] (pruned after the user's last refresh), user [t2,t1]"
refresh_chain_contract!(refresh_chain__pruned_behind_shared_front, master = [2], user = [2, 1], expect = [2]);
// @obl props=C04,C05 tier=thorough class=bounded fn=core::primitives::refresh_coordinate_keys shape="master [t3,t2] , user [t3,t2,t1]"
refresh_chain_contract!(refresh_chain__tail_pruned_shared_front, master = [3, 2], user = [3, 2, 1], expect = [3, 2]);
macro_rules! refresh_flavour_contract {
    ($name:ident, master_hybrid = $mh:expr) => {
        kproof! {
            #[kani::unwind(8)]
            fn $name() {
                // the master key and the user hold the SAME scalar for the right, in different flavours
                // (update_msk drops the KEM key in place when the hint of a right becomes Classic)
                let (x, d): (u8, u8) = (any_fe(), kani::any());
                let r1 = right(&[1]);
                let mut msk = mk_msk(mk_tsk0(1), false);
                let (m, u) = if $mh { (hybrid(x, d), classic(x)) } else { (classic(x), hybrid(x, d)) };
                msk.secrets.insert(r1.clone(), (kani::any(), m.clone()));
                let mut chain = LinkedList::new();
                chain.push_back(u);
                let mut usk: RevisionVec<Right, RightSecretKey> = RevisionVec::new();
                usk.insert_new_chain(r1.clone(), chain);
                let out = refresh_coordinate_keys(&msk, usk);
                assert!(out.len() == 1, "C04: the right is kept");
                let (_k, c) = uchain(&out, 0).unwrap();
                assert!(c[0] == Some(m) && c[1].is_none(), "C11/C04: a refreshed key holds the master key's secrets, flavour included: a user secret that differs from the master's only by its KEM key is replaced, not kept");
                std::mem::forget(msk);
                std::mem::forget(out);
            }
        }
    };
}
// @obl props=C04,C11 tier=quick class=bounded fn=core::primitives::refresh_coordinate_keys shape="master [classic x], user [hybridized x] (hint downgraded since the key was issued)"
refresh_flavour_contract!(refresh_chain__flavour_downgraded, master_hybrid = false);
// @obl props=C04,C11 tier=quick class=bounded fn=core::primitives::refresh_coordinate_keys shape="master [hybridized x], user [classic x]"
refresh_flavour_contract!(refresh_chain__flavour_upgraded, master_hybrid = true);
// @obl props=C05 tier=quick class=bounded fn=core::primitives::refresh_coordinate_keys shape="right absent from the master key"
refresh_chain_contract!(refresh_chain__right_deleted, master = [], user = [2, 1], expect = []);

// ---- generated: every contiguous master window x user window of a 4-secret history (thorough tier) ----
// @obl props=C04,C05 tier=thorough class=bounded fn=core::primitives::refresh_coordinate_keys shape="master [4], user [1] (generated window)"
refresh_chain_contract!(refresh_chain__w_m4_u1, master = [4], user = [1], expect = [4]);
// @obl props=C04,C05 tier=thorough class=bounded fn=core::primitives::refresh_coordinate_keys shape="master [4], user [2] (generated window)"
refresh_chain_contract!(refresh_chain__w_m4_u2, master = [4], user = [2], expect = [4]);
// @obl props=C04,C05 tier=thorough class=bounded fn=core::primitives::refresh_coordinate_keys shape="master [4], user [2, 1] (generated window)"
refresh_chain_contract!(refresh_chain__w_m4_u21, master = [4], user = [2, 1], expect = [4]);
// @obl props=C04,C05 tier=thorough class=bounded fn=core::primitives::refresh_coordinate_keys shape="master [4], user [3] (generated window)"
refresh_chain_contract!(refresh_chain__w_m4_u3, master = [4], user = [3], expect = [4]);
// @obl props=C04,C05 tier=thorough class=bounded fn=core::primitives::refresh_coordinate_keys shape="master [4], user [3, 2] (generated window)"
refresh_chain_contract!(refresh_chain__w_m4_u32, master = [4], user = [3, 2], expect = [4]);
// @obl props=C04,C05 tier=thorough class=bounded fn=core::primitives::refresh_coordinate_keys shape="master [4], user [4] (generated window)"
refresh_chain_contract!(refresh_chain__w_m4_u4, master = [4], user = [4], expect = [4]);
// @obl props=C04,C05 tier=thorough class=bounded fn=core::primitives::refresh_coordinate_keys shape="master [4], user [4, 3] (generated window)"
refresh_chain_contract!(refresh_chain__w_m4_u43, master = [4], user = [4, 3], expect = [4]);
// @obl props=C04,C05 tier=thorough class=bounded fn=core::primitives::refresh_coordinate_keys shape="master [4], user [4, 3, 2] (generated window)"
refresh_chain_contract!(refresh_chain__w_m4_u432, master = [4], user = [4, 3, 2], expect = [4]);
// @obl props=C04,C05 tier=thorough class=bounded fn=core::primitives::refresh_coordinate_keys shape="master [4, 3], user [1] (generated window)"
refresh_chain_contract!(refresh_chain__w_m43_u1, master = [4, 3], user = [1], expect = [4, 3]);
// @obl props=C04,C05 tier=thorough class=bounded fn=core::primitives::refresh_coordinate_keys shape="master [4, 3], user [2] (generated window)"
refresh_chain_contract!(refresh_chain__w_m43_u2, master = [4, 3], user = [2], expect = [4, 3]);
// @obl props=C04,C05 tier=thorough class=bounded fn=core::primitives::refresh_coordinate_keys shape="master [4, 3], user [3] (generated window)"
refresh_chain_contract!(refresh_chain__w_m43_u3, master = [4, 3], user = [3], expect = [4, 3]);
// @obl props=C04,C05 tier=thorough class=bounded fn=core::primitives::refresh_coordinate_keys shape="master [4, 3], user [3, 2] (generated window)"
refresh_chain_contract!(refresh_chain__w_m43_u32, master = [4, 3], user = [3, 2], expect = [4, 3]);
// @obl props=C04,C05 tier=thorough class=bounded fn=core::primitives::refresh_coordinate_keys shape="master [4, 3], user [3, 2, 1] (generated window)"
refresh_chain_contract!(refresh_chain__w_m43_u321, master = [4, 3], user = [3, 2, 1], expect = [4, 3]);
// @obl props=C04,C05 tier=thorough class=bounded fn=core::primitives::refresh_coordinate_keys shape="master [4, 3], user [4] (generated window)"
refresh_chain_contract!(refresh_chain__w_m43_u4, master = [4, 3], user = [4], expect = [4]);
// @obl props=C04,C05 tier=thorough class=bounded fn=core::primitives::refresh_coordinate_keys shape="master [4, 3], user [4, 3] (generated window)"
refresh_chain_contract!(refresh_chain__w_m43_u43, master = [4, 3], user = [4, 3], expect = [4, 3]);
// @obl props=C04,C05 tier=thorough class=bounded fn=core::primitives::refresh_coordinate_keys shape="master [4, 3], user [4, 3, 2] (generated window)"
refresh_chain_contract!(refresh_chain__w_m43_u432, master = [4, 3], user = [4, 3, 2], expect = [4, 3]);
// @obl props=C04,C05 tier=thorough class=bounded fn=core::primitives::refresh_coordinate_keys shape="master [4, 3, 2], user [1] (generated window)"
refresh_chain_contract!(refresh_chain__w_m432_u1, master = [4, 3, 2], user = [1], expect = [4, 3, 2]);
// @obl props=C04,C05 tier=thorough class=bounded fn=core::primitives::refresh_coordinate_keys shape="master [4, 3, 2], user [2] (generated window)"
refresh_chain_contract!(refresh_chain__w_m432_u2, master = [4, 3, 2], user = [2], expect = [4, 3, 2]);
// @obl props=C04,C05 tier=thorough class=bounded fn=core::primitives::refresh_coordinate_keys shape="master [4, 3, 2], user [2, 1] (generated window)"
refresh_chain_contract!(refresh_chain__w_m432_u21, master = [4, 3, 2], user = [2, 1], expect = [4, 3, 2]);
// @obl props=C04,C05 tier=thorough class=bounded fn=core::primitives::refresh_coordinate_keys shape="master [4, 3, 2], user [3] (generated window)"
refresh_chain_contract!(refresh_chain__w_m432_u3, master = [4, 3, 2], user = [3], expect = [4, 3]);
// @obl props=C04,C05 tier=thorough class=bounded fn=core::primitives::refresh_coordinate_keys shape="master [4, 3, 2], user [3, 2] (generated window)"
refresh_chain_contract!(refresh_chain__w_m432_u32, master = [4, 3, 2], user = [3, 2], expect = [4, 3, 2]);
// @obl props=C04,C05 tier=thorough class=bounded fn=core::primitives::refresh_coordinate_keys shape="master [4, 3, 2], user [3, 2, 1] (generated window)"
refresh_chain_contract!(refresh_chain__w_m432_u321, master = [4, 3, 2], user = [3, 2, 1], expect = [4, 3, 2]);
// @obl props=C04,C05 tier=thorough class=bounded fn=core::primitives::refresh_coordinate_keys shape="master [4, 3, 2], user [4] (generated window)"
refresh_chain_contract!(refresh_chain__w_m432_u4, master = [4, 3, 2], user = [4], expect = [4]);
// @obl props=C04,C05 tier=thorough class=bounded fn=core::primitives::refresh_coordinate_keys shape="master [4, 3, 2], user [4, 3] (generated window)"
refresh_chain_contract!(refresh_chain__w_m432_u43, master = [4, 3, 2], user = [4, 3], expect = [4, 3]);
// @obl props=C04,C05 tier=thorough class=bounded fn=core::primitives::refresh_coordinate_keys shape="master [4, 3, 2], user [4, 3, 2] (generated window)"
refresh_chain_contract!(refresh_chain__w_m432_u432, master = [4, 3, 2], user = [4, 3, 2], expect = [4, 3, 2]);
// @obl props=C04,C05 tier=thorough class=bounded fn=core::primitives::refresh_coordinate_keys shape="master [4, 3, 2, 1], user [1] (generated window)"
refresh_chain_contract!(refresh_chain__w_m4321_u1, master = [4, 3, 2, 1], user = [1], expect = [4, 3, 2, 1]);
// @obl props=C04,C05 tier=thorough class=bounded fn=core::primitives::refresh_coordinate_keys shape="master [4, 3, 2, 1], user [2] (generated window)"
refresh_chain_contract!(refresh_chain__w_m4321_u2, master = [4, 3, 2, 1], user = [2], expect = [4, 3, 2]);
// @obl props=C04,C05 tier=thorough class=bounded fn=core::primitives::refresh_coordinate_keys shape="master [4, 3, 2, 1], user [2, 1] (generated window)"
refresh_chain_contract!(refresh_chain__w_m4321_u21, master = [4, 3, 2, 1], user = [2, 1], expect = [4, 3, 2, 1]);
// @obl props=C04,C05 tier=thorough class=bounded fn=core::primitives::refresh_coordinate_keys shape="master [4, 3, 2, 1], user [3] (generated window)"
refresh_chain_contract!(refresh_chain__w_m4321_u3, master = [4, 3, 2, 1], user = [3], expect = [4, 3]);
// @obl props=C04,C05 tier=thorough class=bounded fn=core::primitives::refresh_coordinate_keys shape="master [4, 3, 2, 1], user [3, 2] (generated window)"
refresh_chain_contract!(refresh_chain__w_m4321_u32, master = [4, 3, 2, 1], user = [3, 2], expect = [4, 3, 2]);
// @obl props=C04,C05 tier=thorough class=bounded fn=core::primitives::refresh_coordinate_keys shape="master [4, 3, 2, 1], user [3, 2, 1] (generated window)"
refresh_chain_contract!(refresh_chain__w_m4321_u321, master = [4, 3, 2, 1], user = [3, 2, 1], expect = [4, 3, 2, 1]);
// @obl props=C04,C05 tier=thorough class=bounded fn=core::primitives::refresh_coordinate_keys shape="master [4, 3, 2, 1], user [4] (generated window)"
refresh_chain_contract!(refresh_chain__w_m4321_u4, master = [4, 3, 2, 1], user = [4], expect = [4]);
// @obl props=C04,C05 tier=thorough class=bounded fn=core::primitives::refresh_coordinate_keys shape="master [4, 3, 2, 1], user [4, 3] (generated window)"
refresh_chain_contract!(refresh_chain__w_m4321_u43, master = [4, 3, 2, 1], user = [4, 3], expect = [4, 3]);
// @obl props=C04,C05 tier=thorough class=bounded fn=core::primitives::refresh_coordinate_keys shape="master [4, 3, 2, 1], user [4, 3, 2] (generated window)"
refresh_chain_contract!(refresh_chain__w_m4321_u432, master = [4, 3, 2, 1], user = [4, 3, 2], expect = [4, 3, 2]);
// @obl props=C04,C05 tier=thorough class=bounded fn=core::primitives::refresh_coordinate_keys shape="master [3], user [1] (generated window)"
refresh_chain_contract!(refresh_chain__w_m3_u1, master = [3], user = [1], expect = [3]);
// @obl props=C04,C05 tier=thorough class=bounded fn=core::primitives::refresh_coordinate_keys shape="master [3], user [2] (generated window)"
refresh_chain_contract!(refresh_chain__w_m3_u2, master = [3], user = [2], expect = [3]);
// @obl props=C04,C05 tier=thorough class=bounded fn=core::primitives::refresh_coordinate_keys shape="master [3], user [2, 1] (generated window)"
refresh_chain_contract!(refresh_chain__w_m3_u21, master = [3], user = [2, 1], expect = [3]);
// @obl props=C04,C05 tier=thorough class=bounded fn=core::primitives::refresh_coordinate_keys shape="master [3], user [3] (generated window)"
refresh_chain_contract!(refresh_chain__w_m3_u3, master = [3], user = [3], expect = [3]);
// @obl props=C04,C05 tier=thorough class=bounded fn=core::primitives::refresh_coordinate_keys shape="master [3], user [3, 2] (generated window)"
refresh_chain_contract!(refresh_chain__w_m3_u32, master = [3], user = [3, 2], expect = [3]);
// @obl props=C04,C05 tier=thorough class=bounded fn=core::primitives::refresh_coordinate_keys shape="master [3], user [3, 2, 1] (generated window)"
refresh_chain_contract!(refresh_chain__w_m3_u321, master = [3], user = [3, 2, 1], expect = [3]);
// @obl props=C04,C05 tier=thorough class=bounded fn=core::primitives::refresh_coordinate_keys shape="master [3, 2], user [1] (generated window)"
refresh_chain_contract!(refresh_chain__w_m32_u1, master = [3, 2], user = [1], expect = [3, 2]);
// @obl props=C04,C05 tier=thorough class=bounded fn=core::primitives::refresh_coordinate_keys shape="master [3, 2], user [2] (generated window)"
refresh_chain_contract!(refresh_chain__w_m32_u2, master = [3, 2], user = [2], expect = [3, 2]);
// @obl props=C04,C05 tier=thorough class=bounded fn=core::primitives::refresh_coordinate_keys shape="master [3, 2], user [3] (generated window)"
refresh_chain_contract!(refresh_chain__w_m32_u3, master = [3, 2], user = [3], expect = [3]);
// @obl props=C04,C05 tier=thorough class=bounded fn=core::primitives::refresh_coordinate_keys shape="master [3, 2], user [3, 2] (generated window)"
refresh_chain_contract!(refresh_chain__w_m32_u32, master = [3, 2], user = [3, 2], expect = [3, 2]);
// @obl props=C04,C05 tier=thorough class=bounded fn=core::primitives::refresh_coordinate_keys shape="master [3, 2, 1], user [1] (generated window)"
refresh_chain_contract!(refresh_chain__w_m321_u1, master = [3, 2, 1], user = [1], expect = [3, 2, 1]);
// @obl props=C04,C05 tier=thorough class=bounded fn=core::primitives::refresh_coordinate_keys shape="master [3, 2, 1], user [3] (generated window)"
refresh_chain_contract!(refresh_chain__w_m321_u3, master = [3, 2, 1], user = [3], expect = [3]);
// @obl props=C04,C05 tier=thorough class=bounded fn=core::primitives::refresh_coordinate_keys shape="master [3, 2, 1], user [3, 2] (generated window)"
refresh_chain_contract!(refresh_chain__w_m321_u32, master = [3, 2, 1], user = [3, 2], expect = [3, 2]);
// @obl props=C04,C05 tier=thorough class=bounded fn=core::primitives::refresh_coordinate_keys shape="master [3, 2, 1], user [3, 2, 1] (generated window)"
refresh_chain_contract!(refresh_chain__w_m321_u321, master = [3, 2, 1], user = [3, 2, 1], expect = [3, 2, 1]);

// ---------------------------------------------------------------------------
// usk_keygen(rng, msk, rights)
//   Ok  => one chain per requested right = [front of the master chain] (flavour included), ps = tracer points,
//          id registered in the master key and satisfying sum a_i.t_i = s (C17), signed iff the master key signs
//   Err <=> some right is not held by the master key (KeyError), and then the master key is unchanged
// ---------------------------------------------------------------------------

// @obl props=C01,C04,C09,C11,C17 tier=quick class=bounded fn=core::primitives::usk_keygen shape="2 tracers, rights r1 (2 revisions, hybridized front) and r2 (classic); both requested"
kproof! {
    #[kani::unwind(8)]
    fn usk_keygen__ok() {
        let mut rng = SymRng;
        let (r1, r2) = (right(&[1]), right(&[2]));
        let (s, t0, t1): (u8, u8, u8) = (any_fe(), any_fe(), any_fe());
        kani::assume(t1 != 0); // tracers are invertible scalars (non-zero draws)
        let (x1a, x1b, x2, d): (u8, u8, u8, u8) = (any_fe(), any_fe(), any_fe(), kani::any());
        let mut msk = mk_msk(mk_tsk(s, &[t0, t1]), false);
        msk.secrets.insert(r1.clone(), (true, classic(x1a)));
        msk.secrets.insert(r1.clone(), (false, hybrid(x1b, d)));
        msk.secrets.insert(r2.clone(), (true, classic(x2)));
        let mut set = HashSet::new();
        set.insert(r2.clone());
        set.insert(r1.clone());
        let usk = ok_or_forget(usk_keygen(&mut rng, &mut msk, set));
        assert!(usk.is_some(), "C09: key generation succeeds for rights held by the master key");
        let usk = usk.unwrap();
        assert!(usk.secrets.len() == 2, "C01: one chain per requested right");
        let (ka, ca) = uchain(&usk.secrets, 0).unwrap();
        let (kb, cb) = uchain(&usk.secrets, 1).unwrap();
        assert!(ka == r2 && kb == r1, "C01: the chains are those of the requested rights");
        assert!(ca == [Some(classic(x2)), None, None, None], "C01/C04/C11: a new key holds exactly the newest secret of each right, with its flavour");
        assert!(cb == [Some(hybrid(x1b, d)), None, None, None], "C01/C04/C11: a new key holds exactly the newest secret of each right, with its flavour");
        assert!(usk.ps.len() == 2 && usk.ps[0].0 == t0 && usk.ps[1].0 == t1, "C17: the tracing points of the key are the public tracers of the master key, in order");
        let id = id_view(&usk.id);
        assert!(id[0].is_some() && id[1].is_some() && id[2].is_none(), "C17: one marker per tracer");
        assert!(addp(mulp(id[0].unwrap(), t0), mulp(id[1].unwrap(), t1)) == s, "C17: the markers combined with the tracers give the binding scalar");
        assert!(msk.tsk.users.len() == 1 && msk.tsk.is_known(&usk.id), "C17: the identifier is recorded in the master key");
        assert!(usk.signature.is_none(), "C08: no signature without signing key");
        assert!(mchain(&msk, &r1)[0].as_ref().map(|p| p.1.clone()) == Some(hybrid(x1b, d)) && msk.secrets.len() == 2, "C10: key generation does not touch the secrets of the master key");
        std::mem::forget(msk);
        std::mem::forget(usk);
    }
}

macro_rules! usk_keygen_err_contract {
    ($name:ident, $unknown_first:expr) => {
        kproof! {
            #[kani::unwind(8)]
            fn $name() {
                let mut rng = SymRng;
                let (r1, r9) = (right(&[1]), right(&[9]));
                let x1 = any_fe();
                let a1: bool = true; // flags stored in chains are kept concrete: `Option<(bool, _)>` uses the bool as niche
                let mut msk = mk_msk(mk_tsk(any_fe(), &[any_fe(), 1]), false);
                msk.secrets.insert(r1.clone(), (a1, classic(x1)));
                let mut set = HashSet::new();
                if $unknown_first { set.insert(r9.clone()); set.insert(r1.clone()); } else { set.insert(r1.clone()); set.insert(r9.clone()); }
                let e = err_kind(usk_keygen(&mut rng, &mut msk, set));
                assert!(e == E_KEY, "C09: key generation for a right the master key does not hold fails (KeyError)");
                assert!(msk.tsk.users.len() == 0, "C10/C17: a failed key generation registers no identifier");
                assert!(mchain(&msk, &r1) == [Some((a1, classic(x1))), None, None, None] && msk.secrets.len() == 1, "C10: a failed key generation leaves the master key untouched");
                std::mem::forget(msk);
            }
        }
    };
}
// @obl props=C09,C10,C17 tier=quick class=bounded fn=core::primitives::usk_keygen shape="2 tracers, right r1 held, r9 unknown; requested {r1, r9}"
usk_keygen_err_contract!(usk_keygen__err_unknown_last, false);

// @obl props=C08,C17 tier=quick class=bounded fn=core::primitives::usk_keygen shape="signing master key, 1 right" loops="Zeroize>::zeroize=18"
kproof! {
    #[kani::unwind(8)]
    fn usk_keygen__signed() {
        let mut rng = SymRng;
        let r1 = right(&[1]);
        let mut msk = mk_msk(mk_tsk(any_fe(), &[any_fe(), 1]), true);
        msk.secrets.insert(r1.clone(), (true, classic(any_fe())));
        let mut set = HashSet::new();
        set.insert(r1.clone());
        let n0 = unsafe { oracle::N };
        let usk = ok_or_forget(usk_keygen(&mut rng, &mut msk, set)).unwrap();
        let n1 = unsafe { oracle::N };
        assert!(usk.signature.is_some(), "C08: keys issued by a signing master key are signed");
        assert!(n1 == n0 + 1 && unsafe { oracle::DOMS[n0] } == oracle::DOM_KMAC, "C08: the signature is one KMAC computation");
        // KMAC stream: key(16) ++ custom(13) ++ markers(2 x 1) ++ right bytes(1) ++ scalar(1)
        assert!(unsafe { oracle::LENS[n0] } == 16 + 13 + 2 + 1 + 1, "C08: the KMAC input covers the identifier, every right and every secret");
        std::mem::forget(msk);
        std::mem::forget(usk);
    }
}

// ---------------------------------------------------------------------------
// MasterSecretKey::mpk / MasterPublicKey::select_subkeys
// ---------------------------------------------------------------------------

// @obl props=C04,C06,C11,C17 tier=quick class=bounded fn=core::MasterSecretKey::mpk shape="2 tracers; r1 (2 revisions, front activated hybridized), r2 (front deactivated, older activated), r3 (classic activated)"
kproof! {
    #[kani::unwind(8)]
    fn mpk__publishes_activated_fronts() {
        let (r1, r2, r3) = (right(&[1]), right(&[2]), right(&[3]));
        let (s, t0, t1): (u8, u8, u8) = (any_fe(), any_fe(), any_fe());
        let x: [u8; 5] = kani::any();
        kani::assume((x[0] as u32) < crate::core::nike::toy_p() && (x[1] as u32) < crate::core::nike::toy_p() && (x[2] as u32) < crate::core::nike::toy_p() && (x[3] as u32) < crate::core::nike::toy_p() && (x[4] as u32) < crate::core::nike::toy_p());
        let d: u8 = kani::any();
        let act3: bool = kani::any();
        let mut msk = mk_msk(mk_tsk(s, &[t0, t1]), false);
        msk.secrets.insert(r1.clone(), (kani::any(), classic(x[0])));
        msk.secrets.insert(r1.clone(), (true, hybrid(x[1], d)));
        msk.secrets.insert(r2.clone(), (true, classic(x[2])));
        msk.secrets.insert(r2.clone(), (false, classic(x[3])));
        msk.secrets.insert(r3.clone(), (act3, classic(x[4])));
        let mpk = ok_or_forget(msk.mpk()).unwrap();
        assert!(mpk.encryption_keys.len() == 1 + act3 as usize, "C06: exactly the rights whose newest secret is activated are published");
        assert!(!mpk.encryption_keys.contains_key(&r2), "C06: a right whose newest secret is deactivated is not published, even if an older secret is activated");
        assert!(mpk.encryption_keys.contains_key(&r3) == act3, "C06: publication follows the activation flag of the newest secret");
        match mpk.encryption_keys.get(&r1) {
            Some(RightPublicKey::Hybridized { H, ek }) => {
                assert!(H.0 == mulp(s, x[1]), "C04: the published key is h.sk for the NEWEST secret of the right");
                assert!(ek.0 == d, "C11: a hybridized secret publishes the encapsulation key of its own KEM key");
            }
            _ => assert!(false, "C11: a hybridized right publishes a hybridized key"),
        }
        if act3 {
            match mpk.encryption_keys.get(&r3) {
                Some(RightPublicKey::Classic { H }) => assert!(H.0 == mulp(s, x[4]), "C04: the published key is h.sk for the newest secret"),
                _ => assert!(false, "C11: a classic right publishes a classic key"),
            }
        }
        let mut it = mpk.tpk.0.iter();
        assert!(it.next().map(|p| p.0) == Some(t0) && it.next().map(|p| p.0) == Some(t1) && it.next().is_none(), "C17: the public tracers are those of the master key, in order");
        std::mem::forget(msk);
        std::mem::forget(mpk);
    }
}

macro_rules! select_subkeys_contract {
    ($name:ident, $h1:expr, $h2:expr) => {
        kproof! {
            #[kani::unwind(8)]
            fn $name() {
                let (r1, r2, r3, r9) = (right(&[1]), right(&[2]), right(&[3]), right(&[9]));
                let (p1, p2, p3): (u8, u8, u8) = (any_fe(), any_fe(), any_fe());
                let mk = |h: bool, p: u8| if h { RightPublicKey::Hybridized { H: Pk { 0: p }, ek: Ek { 0: p } } } else { RightPublicKey::Classic { H: Pk { 0: p } } };
                let mut keys = HashMap::new();
                keys.insert(r1.clone(), mk($h1, p1));
                keys.insert(r2.clone(), mk($h2, p2));
                keys.insert(r3.clone(), mk(false, p3));
                let mpk = MasterPublicKey { tpk: TracingPublicKey(LList::new()), encryption_keys: keys, access_structure: AccessStructure::new() };
                let mut targets = HashSet::new();
                targets.insert(r2.clone());
                targets.insert(r1.clone());
                let res = ok_or_forget(mpk.select_subkeys(&targets));
                assert!(res.is_some(), "C09: selection succeeds when every target is published");
                let (flag, ks) = res.unwrap();
                assert!(flag == ($h1 && $h2), "C09/C11: the encapsulation is hybridized iff every targeted right is hybridized (a wrong flag makes a valid encapsulation fail or downgrades it)");
                assert!(ks.len() == 2, "C01: one sub-key per target, no omission, no duplicate");
                assert!(*ks[0] == mk($h2, p2) && *ks[1] == mk($h1, p1), "C01: the selected sub-keys are those of the targets");
                let mut bad = HashSet::new();
                bad.insert(r1.clone());
                bad.insert(r9.clone());
                let e = err_kind(mpk.select_subkeys(&bad));
                assert!(e == E_KEY, "C09: encapsulating for a right with no published key fails (KeyError)");
                std::mem::forget(mpk);
            }
        }
    };
}
// @obl props=C01,C09,C11 tier=quick class=bounded fn=core::MasterPublicKey::select_subkeys shape="3 published rights, 2 targets both hybridized"
select_subkeys_contract!(select_subkeys__all_hybridized, true, true);
// @obl props=C01,C09,C11 tier=quick class=bounded fn=core::MasterPublicKey::select_subkeys shape="3 published rights, 2 targets mixed"
select_subkeys_contract!(select_subkeys__mixed, true, false);
// @obl props=C01,C09,C11 tier=thorough class=bounded fn=core::MasterPublicKey::select_subkeys shape="3 published rights, 2 targets both classic"
select_subkeys_contract!(select_subkeys__all_classic, false, false);

// ---------------------------------------------------------------------------
// refresh(rng, msk, usk, keep)
//   Ok  <=> the signature verifies and the id is known (C08/C09); in particular Ok with either flag whatever was
//           re-keyed, pruned or deleted; keep => chains as refresh_coordinate_keys; !keep => every surviving right
//           holds exactly the master front; rights unknown to the master key are dropped in both modes;
//           the id stays registered; Err => usk' == usk and msk' == msk (C10)
// ---------------------------------------------------------------------------

macro_rules! refresh_pre {
    ($rng:ident, $msk:ident, $usk:ident, $r1:ident, $r9:ident, $t:ident, $ida:ident, $idb:ident, known = $known:expr) => {
        let mut $rng = SymRng;
        let ($r1, $r9) = (right(&[1]), right(&[9]));
        let $t: [u8; 3] = kani::any();
        kani::assume(($t[1] as u32) < crate::core::nike::toy_p() && ($t[2] as u32) < crate::core::nike::toy_p() && $t[1] != $t[2]);
        let ($ida, $idb): (u8, u8) = (any_fe(), any_fe());
        let mk_id = |x: u8, y: u8| { let mut l = LList::new(); l.push_back(sk(x)); l.push_back(sk(y)); UserId(l) };
        let mut $msk = mk_msk(mk_tsk(any_fe(), &[any_fe(), 1]), false);
        // master chain of r1: [t2, t1]; the user still holds [t1] and a right r9 deleted from the master key
        $msk.secrets.insert($r1.clone(), (true, classic($t[1])));
        $msk.secrets.insert($r1.clone(), (true, classic($t[2])));
        if $known { $msk.tsk.add_user(mk_id($ida, $idb)); }
        let mut secrets: RevisionVec<Right, RightSecretKey> = RevisionVec::new();
        secrets.create_chain_with_single_value($r9.clone(), classic($t[1]));
        secrets.create_chain_with_single_value($r1.clone(), classic($t[1]));
        let mut $usk = UserSecretKey { id: mk_id($ida, $idb), ps: vec![Pk { 0: 3 }, Pk { 0: 1 }], secrets, signature: None };
    };
}

macro_rules! refresh_ok_contract {
    ($name:ident, $keep:expr) => {
        kproof! {
            #[kani::unwind(8)]
            fn $name() {
                refresh_pre!(rng, msk, usk, r1, r9, t, ida, idb, known = true);
                let ok = ok_or_forget(refresh(&mut rng, &mut msk, &mut usk, $keep)).is_some();
                assert!(ok, "C09: refreshing an issued key succeeds with either flag, also when one of its rights was deleted from the master key");
                assert!(usk.secrets.len() == 1, "C05: rights unknown to the master key are dropped by a refresh (both modes)");
                let (k, c) = uchain(&usk.secrets, 0).unwrap();
                assert!(k == r1, "C04: surviving rights are kept");
                if $keep {
                    assert!(c == [Some(classic(t[2])), Some(classic(t[1])), None, None], "C04: keep-old refresh = master front first, then the old secrets still held by the master key");
                } else {
                    assert!(c == [Some(classic(t[2])), None, None, None], "C04/C05: refresh without old secrets leaves exactly the newest secret of each right");
                }
                assert!(id_view(&usk.id) == [Some(ida), Some(idb), None], "C17: the identifier of an up-to-date key is kept");
                assert!(msk.tsk.users.len() == 1 && msk.tsk.is_known(&usk.id), "C17: the identifier stays registered");
                assert!(usk.signature.is_none(), "C08: the key is re-signed (no signature without signing key)");
                assert!(usk.ps.len() == 2 && usk.ps[0].0 == 3 && usk.ps[1].0 == 1, "C17: tracing points untouched");
                assert!(mchain(&msk, &r1) == [Some((true, classic(t[2]))), Some((true, classic(t[1]))), None, None] && msk.secrets.len() == 1, "C10: refresh does not touch the secrets of the master key");
                std::mem::forget(msk);
                std::mem::forget(usk);
            }
        }
    };
}
// @obl props=C04,C05,C09,C17 tier=quick class=bounded fn=core::primitives::refresh shape="master [t2,t1], user {r9 deleted: [t1], r1: [t1]}, keep old secrets"
refresh_ok_contract!(refresh__ok_keep, true);

macro_rules! refresh_nokeep_contract {
    ($name:ident, deleted = $deleted:expr) => {
        kproof! {
            #[kani::unwind(8)]
            fn $name() {
                let mut rng = SymRng;
                let (r1, r9) = (right(&[1]), right(&[9]));
                let t: [u8; 3] = kani::any();
                kani::assume((t[1] as u32) < crate::core::nike::toy_p() && (t[2] as u32) < crate::core::nike::toy_p() && t[1] != t[2]);
                let mk_id = |x: u8, y: u8| { let mut l = LList::new(); l.push_back(sk(x)); l.push_back(sk(y)); UserId(l) };
                let mut msk = mk_msk(mk_tsk(any_fe(), &[any_fe(), 1]), false);
                msk.secrets.insert(r1.clone(), (true, classic(t[1])));
                msk.secrets.insert(r1.clone(), (true, classic(t[2])));
                msk.tsk.add_user(mk_id(2, 3));
                let mut secrets: RevisionVec<Right, RightSecretKey> = RevisionVec::new();
                let mut old = LList::new();
                old.push_back(classic(t[1]));
                secrets.insert_new_chain(if $deleted { r9.clone() } else { r1.clone() }, old);
                let mut usk = UserSecretKey { id: mk_id(2, 3), ps: vec![Pk { 0: 3 }, Pk { 0: 1 }], secrets, signature: None };
                let ok = ok_or_forget(refresh(&mut rng, &mut msk, &mut usk, false)).is_some();
                assert!(ok, "C09: refreshing an issued key without old secrets succeeds, also when its right was deleted from the master key");
                if $deleted {
                    assert!(usk.secrets.len() == 0, "C05: a right deleted from the master key is dropped by the refresh");
                } else {
                    assert!(usk.secrets.len() == 1, "C04: surviving rights are kept");
                    let (k, c) = uchain(&usk.secrets, 0).unwrap();
                    assert!(k == r1 && c == [Some(classic(t[2])), None, None, None], "C04/C05: refresh without old secrets leaves exactly the newest secret of each right");
                }
                assert!(msk.tsk.users.len() == 1 && msk.tsk.is_known(&usk.id), "C17: the identifier stays registered");
                std::mem::forget(msk);
                std::mem::forget(usk);
            }
        }
    };
}
// (the variant with a surviving right is not registered: CBMC's model of `vec::IntoIter` in `into_keys().filter(..)` reports impossible pointer distances, see DESIGN §2)
// @obl props=C05,C09 tier=quick class=bounded fn=core::primitives::refresh shape="user {r9: [t1]} whose right was deleted from the master key, drop old secrets"
refresh_nokeep_contract!(refresh__ok_nokeep_deleted, deleted = true);

macro_rules! refresh_err_contract {
    ($name:ident, known = $known:expr, forged_sig = $forged:expr, keep = $keep:expr, $kind:expr, $msg:expr) => {
        kproof! {
            #[kani::unwind(8)]
            fn $name() {
                refresh_pre!(rng, msk, usk, r1, r9, t, ida, idb, known = $known);
                if $forged { usk.signature = Some(kani::any()); }
                let sig0 = usk.signature;
                let e = err_kind(refresh(&mut rng, &mut msk, &mut usk, $keep));
                assert!(e == $kind, $msg);
                assert!(id_view(&usk.id) == [Some(ida), Some(idb), None], "C10/C17: a refused refresh does not empty or change the identifier of the user key (an issued key keeps its registered identifier)");
                assert!(usk.secrets.len() == 2, "C10: a refused refresh does not empty the user key");
                let (ka, ca) = uchain(&usk.secrets, 0).unwrap();
                let (kb, cb) = uchain(&usk.secrets, 1).unwrap();
                assert!(ka == r9 && kb == r1 && ca == [Some(classic(t[1])), None, None, None] && cb == [Some(classic(t[1])), None, None, None], "C10: a refused refresh leaves every right and secret of the user key untouched");
                assert!(usk.signature == sig0 && usk.ps.len() == 2, "C10: a refused refresh leaves signature and tracing points untouched");
                assert!(msk.tsk.users.len() == ($known as usize), "C10/C17: a refused refresh registers or removes no identifier");
                assert!(mchain(&msk, &r1) == [Some((true, classic(t[2]))), Some((true, classic(t[1]))), None, None], "C10: a refused refresh leaves the master key untouched");
                std::mem::forget(msk);
                std::mem::forget(usk);
            }
        }
    };
}
// @obl props=C08,C09,C10,C17 tier=quick class=bounded fn=core::primitives::refresh shape="identifier unknown to the master key, keep"
refresh_err_contract!(refresh__err_unknown_id_keep, known = false, forged_sig = false, keep = true, E_TRACING, "C08/C09/C17: a key whose identifier the master key does not know (not issued by THIS master key state, e.g. a backup taken earlier) is refused (Tracing)");
// @obl props=C08,C09,C10 tier=quick class=bounded fn=core::primitives::refresh shape="signature present but the master key does not sign (foreign / altered signature)" loops="memcmp=34"
refresh_err_contract!(refresh__err_bad_signature, known = true, forged_sig = true, keep = true, E_KEY, "C08/C09: a key whose signature does not match is refused (KeyError) before anything is modified");

// ---------------------------------------------------------------------------
// Encapsulation: dataflow contracts over the ghost hash log (C01, C07, C11, C16)
//   T <- H256(ser(c_1) .. ser(c_n) [ || ser(E_1) .. ser(E_m) ])
//   K_j <- H256(ser(H_j . r) [ || K2_j ] || T) ;  F_j = S xor K_j
//   U <- H256(T || F_1 .. F_m) ;  (tag, ss) <- H384(S || U)
// ---------------------------------------------------------------------------

fn secret32(b: [u8; 32]) -> Secret<SHARED_SECRET_LENGTH> {
    let mut s = Secret::<SHARED_SECRET_LENGTH>::new();
    s.copy_from_slice(&b);
    s
}
fn xor32(a: [u8; 32], b: [u8; 32]) -> [u8; 32] {
    let mut o = [0u8; 32];
    let mut i = 0;
    while i < 32 {
        o[i] = a[i] ^ b[i];
        i += 1;
    }
    o
}

// @obl props=C01,C07,C16 tier=quick class=bounded fn=core::primitives::c_encaps shape="2 traps, 2 classic targets; S, r, traps, keys symbolic" loops="zeroize=34;xor_2=34;xor32=34;memcmp=34"
kproof! {
    #[kani::unwind(8)]
    fn c_encaps__stream_contract_2targets() {
        let s: [u8; 32] = kani::any();
        let (r, c0, c1, h1, h2): (u8, u8, u8, u8, u8) = (any_fe(), any_fe(), any_fe(), any_fe(), any_fe());
        let k1 = RightPublicKey::Classic { H: Pk { 0: h1 } };
        let k2 = RightPublicKey::Hybridized { H: Pk { 0: h2 }, ek: Ek { 0: kani::any() } };
        let n0 = oracle::n();
        let res = ok_or_forget(c_encaps(secret32(s), vec![Pk { 0: c0 }, Pk { 0: c1 }], sk(r), vec![&k1, &k2]));
        assert!(res.is_some(), "C09: classic encapsulation succeeds for any sub-keys");
        let (ss, enc) = res.unwrap();
        assert!(oracle::n() == n0 + 5, "C07: exactly T, one K per target, U and J are computed");
        // T
        assert!(oracle::dom(n0) == oracle::DOM_SHA3_256 && oracle::len(n0) == 2 && oracle::input(n0)[0] == c0 && oracle::input(n0)[1] == c1, "C07: T binds every trap, in order");
        let t = oracle::out32(n0, 0);
        // K_1, K_2
        assert!(oracle::dom(n0 + 1) == oracle::DOM_SHA3_256 && oracle::len(n0 + 1) == 33 && oracle::input(n0 + 1)[0] == mulp(h1, r) && oracle::in32(n0 + 1, 1) == t, "C01/C07: K_1 = H(H_1.r || T)");
        assert!(oracle::dom(n0 + 2) == oracle::DOM_SHA3_256 && oracle::len(n0 + 2) == 33 && oracle::input(n0 + 2)[0] == mulp(h2, r) && oracle::in32(n0 + 2, 1) == t, "C01/C07: K_2 = H(H_2.r || T); a hybridized key is used through its classic part");
        let f1 = xor32(s, oracle::out32(n0 + 1, 0));
        let f2 = xor32(s, oracle::out32(n0 + 2, 0));
        // U
        assert!(oracle::dom(n0 + 3) == oracle::DOM_SHA3_256 && oracle::len(n0 + 3) == 96 && oracle::in32(n0 + 3, 0) == t && oracle::in32(n0 + 3, 32) == f1 && oracle::in32(n0 + 3, 64) == f2, "C07: U binds T and every masked seed, in order");
        let u = oracle::out32(n0 + 3, 0);
        // J
        assert!(oracle::dom(n0 + 4) == oracle::DOM_SHA3_384 && oracle::len(n0 + 4) == 64 && oracle::in32(n0 + 4, 0) == s && oracle::in32(n0 + 4, 32) == u, "C07/C16: (tag, key) = J(S || U)");
        let j = oracle::out(n0 + 4);
        let mut tag = [0u8; 16];
        tag.copy_from_slice(&j[..16]);
        assert!(enc.tag == tag, "C07: the tag is the first half of J's output");
        assert!(*ss == oracle::out32(n0 + 4, 16), "C01: the returned secret is the second half of J's output");
        assert!(enc.c.len() == 2 && enc.c[0].0 == c0 && enc.c[1].0 == c1, "C01: the traps are emitted unchanged");
        match &enc.encapsulations {
            Encapsulations::CEncs(v) => assert!(v.len() == 2 && v[0] == f1 && v[1] == f2, "C01/C07: F_j = S xor K_j, one per target, in order"),
            _ => assert!(false, "C11: c_encaps emits a classic encapsulation"),
        }
        std::mem::forget(ss);
        std::mem::forget(enc);
    }
}

// @obl props=C01,C07,C11,C16 tier=quick class=bounded fn=core::primitives::h_encaps shape="1 trap, 1 hybridized target" loops="zeroize=34;xor_2=34;xor32=34;memcmp=34"
kproof! {
    #[kani::unwind(8)]
    fn h_encaps__stream_contract_1target() {
        let mut rng = SymRng;
        let s: [u8; 32] = kani::any();
        let (r, c0, h1, ek1): (u8, u8, u8, u8) = (any_fe(), any_fe(), any_fe(), kani::any());
        let k1 = RightPublicKey::Hybridized { H: Pk { 0: h1 }, ek: Ek { 0: ek1 } };
        let n0 = oracle::n();
        let res = ok_or_forget(h_encaps(secret32(s), vec![Pk { 0: c0 }], sk(r), &[&k1], &mut rng));
        assert!(res.is_some(), "C09: hybridized encapsulation succeeds when every sub-key is hybridized");
        let (ss, enc) = res.unwrap();
        assert!(oracle::n() == n0 + 5, "C07: exactly K2 (KEM), T, K, U and J are computed");
        // KEM encapsulation for ek_1: session key K2 = O_KEM(ek, k), E = k xor ek (toy KEM)
        assert!(oracle::dom(n0) == oracle::DOM_KEM && oracle::len(n0) == 2 && oracle::input(n0)[0] == ek1, "C11: one KEM encapsulation under the target's own encapsulation key");
        let e1 = oracle::input(n0)[1] ^ ek1;
        let k2 = oracle::out32(n0, 0);
        // T binds traps and KEM ciphertexts
        assert!(oracle::dom(n0 + 1) == oracle::DOM_SHA3_256 && oracle::len(n0 + 1) == 2 && oracle::input(n0 + 1)[0] == c0 && oracle::input(n0 + 1)[1] == e1, "C07/C11: T binds every trap and every KEM ciphertext");
        let t = oracle::out32(n0 + 1, 0);
        assert!(oracle::dom(n0 + 2) == oracle::DOM_SHA3_256 && oracle::len(n0 + 2) == 65 && oracle::input(n0 + 2)[0] == mulp(h1, r) && oracle::in32(n0 + 2, 1) == k2 && oracle::in32(n0 + 2, 33) == t, "C01/C07/C11: K = H(H.r || K2 || T): both the classic and the post-quantum key are needed");
        let f1 = xor32(s, oracle::out32(n0 + 2, 0));
        assert!(oracle::dom(n0 + 3) == oracle::DOM_SHA3_256 && oracle::len(n0 + 3) == 64 && oracle::in32(n0 + 3, 0) == t && oracle::in32(n0 + 3, 32) == f1, "C07: U binds T and every masked seed");
        let u = oracle::out32(n0 + 3, 0);
        assert!(oracle::dom(n0 + 4) == oracle::DOM_SHA3_384 && oracle::len(n0 + 4) == 64 && oracle::in32(n0 + 4, 0) == s && oracle::in32(n0 + 4, 32) == u, "C07/C16: (tag, key) = J(S || U)");
        let j = oracle::out(n0 + 4);
        let mut tag = [0u8; 16];
        tag.copy_from_slice(&j[..16]);
        assert!(enc.tag == tag && *ss == oracle::out32(n0 + 4, 16), "C01/C07: tag and secret are the two halves of J's output");
        assert!(enc.c.len() == 1 && enc.c[0].0 == c0, "C01: the traps are emitted unchanged");
        match &enc.encapsulations {
            Encapsulations::HEncs(v) => assert!(v.len() == 1 && v[0].0 .0 == e1 && v[0].1 == f1, "C11: one (KEM ciphertext, masked seed) pair per target"),
            _ => assert!(false, "C11: h_encaps emits a hybridized encapsulation"),
        }
        std::mem::forget(ss);
        std::mem::forget(enc);
    }
}

// @obl props=C11 tier=quick class=bounded fn=core::primitives::h_encaps shape="1 trap, 1 classic target (refused)" loops="zeroize=34"
kproof! {
    #[kani::unwind(8)]
    fn h_encaps__refuses_classic_subkey() {
        let mut rng = SymRng;
        let s: [u8; 32] = kani::any();
        let kc = RightPublicKey::Classic { H: Pk { 0: any_fe() } };
        let e = err_kind(h_encaps(secret32(s), vec![Pk { 0: any_fe() }], sk(any_fe()), &[&kc], &mut rng));
        assert!(e == E_KEM, "C11: h_encaps refuses a classic sub-key (no silent downgrade)");
    }
}

macro_rules! encaps_mode_contract {
    ($name:ident, $hyb:expr) => {
        kproof! {
            #[kani::unwind(8)]
            fn $name() {
                let mut rng = SymRng;
                let r1 = right(&[1]);
                let (p0, h1): (u8, u8) = (any_fe(), any_fe());
                let mut keys = HashMap::new();
                keys.insert(r1.clone(), if $hyb { RightPublicKey::Hybridized { H: Pk { 0: h1 }, ek: Ek { 0: kani::any() } } } else { RightPublicKey::Classic { H: Pk { 0: h1 } } });
                let mut tp = LList::new();
                tp.push_back(Pk { 0: p0 });
                let mpk = MasterPublicKey { tpk: TracingPublicKey(tp), encryption_keys: keys, access_structure: AccessStructure::new() };
                let mut targets = HashSet::new();
                targets.insert(r1.clone());
                let (f0, n0) = (rng_log::nfill(), oracle::n());
                let res = ok_or_forget(encaps(&mut rng, &mpk, &targets));
                assert!(res.is_some(), "C09: encapsulation succeeds when every target is published");
                let (ss, enc) = res.unwrap();
                // S is fresh randomness of this call, r = G(S), c = [P_i . r]
                assert!(rng_log::nfill() == f0 + 1 && rng_log::fill_len(f0) == 32, "C16: the seed S is 32 bytes drawn from the RNG during this call");
                assert!(oracle::dom(n0) == oracle::DOM_G && oracle::len(n0) == 32 && oracle::in32(n0, 0) == rng_log::fill(f0), "C16/C01: the ElGamal randomness is r = G(S) for the fresh seed S");
                let r = (oracle::out(n0)[0] as u32 % crate::core::nike::toy_p()) as u8;
                assert!(enc.c.len() == 1 && enc.c[0].0 == mulp(p0, r), "C01: traps c_i = P_i . r for every public tracer");
                let hybrid_out = match &enc.encapsulations { Encapsulations::HEncs(v) => { assert!(v.len() == 1, "C01: one component per target"); true } Encapsulations::CEncs(v) => { assert!(v.len() == 1, "C01: one component per target"); false } };
                assert!(hybrid_out == $hyb, "C11: the encapsulation is hybridized iff every targeted right is hybridized");
                // the last query is J(S || U) with the same fresh S
                let q = oracle::n() - 1;
                assert!(oracle::dom(q) == oracle::DOM_SHA3_384 && oracle::in32(q, 0) == rng_log::fill(f0), "C16: tag and secret derive from the fresh seed S");
                std::mem::forget(ss);
                std::mem::forget(enc);
                std::mem::forget(mpk);
            }
        }
    };
}
// @obl props=C01,C09,C11,C16 tier=quick class=bounded fn=core::primitives::encaps shape="1 tracer, 1 classic target" loops="zeroize=34;xor_2=34;memcmp=34"
encaps_mode_contract!(encaps__classic_mode_fresh_seed, false);
// @obl props=C01,C09,C11,C16 tier=quick class=bounded fn=core::primitives::encaps shape="1 tracer, 1 hybridized target" loops="zeroize=34;xor_2=34;memcmp=34"
encaps_mode_contract!(encaps__hybrid_mode_fresh_seed, true);

// ---------------------------------------------------------------------------
// Decapsulation: accept condition and candidate coverage (C01, C02, C04, C07)
// ---------------------------------------------------------------------------



// (a stream contract on `sign` with two rights could not be discharged: CBMC cannot bound the iteration over the
// two-element `RevisionVec` inside `sign`; the clause is covered natively by signature__structural_tampering_is_rejected)

// ---------------------------------------------------------------------------
// hash leaves and shuffle
// ---------------------------------------------------------------------------

// @obl props=C07,C01 tier=quick class=bounded fn=core::primitives::J_hash shape="all 32-byte S, U; also H_hash with and without K2, G_hash" loops="zeroize=34;memcmp=34;volatile_set=34"
kproof! {
    #[kani::unwind(8)]
    fn hash_leaves__exact_input_streams() {
        let s: [u8; 32] = kani::any();
        let u: [u8; 32] = kani::any();
        let n0 = oracle::n();
        let (tag, ss) = J_hash(&secret32(s), &secret32(u));
        assert!(oracle::n() == n0 + 1 && oracle::dom(n0) == oracle::DOM_SHA3_384 && oracle::len(n0) == 64, "C07: J is one SHA3-384 computation over 64 bytes");
        assert!(oracle::in32(n0, 0) == s && oracle::in32(n0, 32) == u, "C07: J hashes S then U (the value binding T and every masked seed)");
        let j = oracle::out(n0);
        let mut t16 = [0u8; 16];
        t16.copy_from_slice(&j[..16]);
        assert!(tag == t16 && *ss == oracle::out32(n0, 16), "C07: tag = first 16 bytes, secret = next 32 bytes of J's output");
        let (k1, t): (u8, [u8; 32]) = (any_fe(), kani::any());
        let k2: [u8; 32] = kani::any();
        let h = ok_or_forget(H_hash(&Pk { 0: k1 }, Some(&secret32(k2)), &secret32(t))).unwrap();
        assert!(oracle::dom(n0 + 1) == oracle::DOM_SHA3_256 && oracle::len(n0 + 1) == 65 && oracle::input(n0 + 1)[0] == k1 && oracle::in32(n0 + 1, 1) == k2 && oracle::in32(n0 + 1, 33) == t && *h == oracle::out32(n0 + 1, 0), "C07/C11: H hashes K1 || K2 || T in hybridized mode");
        let h2 = ok_or_forget(H_hash(&Pk { 0: k1 }, None, &secret32(t))).unwrap();
        assert!(oracle::len(n0 + 2) == 33 && oracle::input(n0 + 2)[0] == k1 && oracle::in32(n0 + 2, 1) == t && *h2 == oracle::out32(n0 + 2, 0), "C07: H hashes K1 || T in classic mode");
        let g = ok_or_forget(G_hash(&secret32(s))).unwrap();
        assert!(oracle::dom(n0 + 3) == oracle::DOM_G && oracle::in32(n0 + 3, 0) == s && g.0 as u32 == oracle::out(n0 + 3)[0] as u32 % crate::core::nike::toy_p(), "C01/C16: r = G(S)");
        std::mem::forget((ss, h, h2));
    }
}

macro_rules! shuffle_contract {
    ($name:ident, $n:expr) => {
        kproof! {
            #[kani::unwind(6)]
            fn $name() {
                let mut rng = SymRng;
                let v: [u8; $n] = kani::any();
                let mut w = v;
                shuffle(&mut w[..], &mut rng);
                // permutation: same multiset (counted per value, loop-free for n <= 3)
                let mut i = 0;
                while i < $n {
                    let mut cv = 0;
                    let mut cw = 0;
                    let mut j = 0;
                    while j < $n {
                        if v[j] == v[i] { cv += 1; }
                        if w[j] == v[i] { cw += 1; }
                        j += 1;
                    }
                    assert!(cv == cw, "C01/C07: shuffling only permutes the components (no omission, no duplicate)");
                    i += 1;
                }
            }
        }
    };
}
// @obl props=C14,C12,C01 tier=quick class=proved fn=core::primitives::shuffle shape="empty slice (no panic): decapsulating an altered ciphertext with no component"
shuffle_contract!(shuffle__empty_slice, 0);
// @obl props=C01,C07,C14 tier=quick class=bounded fn=core::primitives::shuffle shape="3 symbolic elements, symbolic draws"
shuffle_contract!(shuffle__permutation_3, 3);
// @obl props=C01,C14 tier=quick class=bounded fn=core::primitives::shuffle shape="1 symbolic element"
shuffle_contract!(shuffle__permutation_1, 1);

// The contracts on c_decaps / h_decaps / full_decaps (accept condition, candidate coverage) could not be discharged.
// With the global unwind bound 8 the smallest shape did not finish in 25 min / 14 GB; with bound 3 CBMC finishes in 11 min
// but Kani's unallocated-pointer model cuts every path before the end of the obligation (the vacuity guard is unsatisfied),
// so the result would be vacuous.  Their clauses are covered by the native bounded checks in native/src/core (DESIGN §2).
