//! Toy KEM: dk = d (one byte), ek = d, enc: picks k, E = k xor mask(d), ss = O(KEM, d||k).
//! Correct (dec(dk, enc(ek)) == ss) and implicit-rejection-free; enough for functional laws.
use cosmian_crypto_core::bytes_ser_de::{Deserializer, Serializable, Serializer};
use cosmian_crypto_core::{reexport::rand_core::CryptoRngCore, Secret};

use crate::traits::Kem;
use crate::{core::SHARED_SECRET_LENGTH, Error};

#[derive(Debug, PartialEq, Clone)]
pub struct ToyEk(pub u8);
#[derive(Debug, PartialEq, Clone)]
pub struct ToyDk(pub u8);
#[derive(Debug, PartialEq, Eq, Clone, Hash)]
pub struct ToyEnc(pub u8);

impl ToyDk {
    pub fn ek(&self) -> ToyEk {
        ToyEk(self.0)
    }
}

macro_rules! ser1 {
    ($t:ident) => {
        impl Serializable for $t {
            type Error = Error;
            fn length(&self) -> usize {
                1
            }
            fn write(&self, ser: &mut Serializer) -> Result<usize, Error> {
                ser.write_array(&[self.0]).map_err(Error::from)
            }
            fn read(de: &mut Deserializer) -> Result<Self, Error> {
                Ok(Self(de.read_array::<1>()?[0]))
            }
        }
    };
}
ser1!(ToyEk);
ser1!(ToyDk);
ser1!(ToyEnc);

fn ss(d: u8, k: u8) -> Secret<SHARED_SECRET_LENGTH> {
    let out = crate::kani_verif::oracle::query(crate::kani_verif::oracle::DOM_KEM, &[d, k]);
    let mut s = Secret::<SHARED_SECRET_LENGTH>::new();
    s.copy_from_slice(&out[..SHARED_SECRET_LENGTH]);
    s
}

pub struct ToyKem;
impl Kem for ToyKem {
    type EncapsulationKey = ToyEk;
    type DecapsulationKey = ToyDk;
    type SessionKey = Secret<SHARED_SECRET_LENGTH>;
    type Encapsulation = ToyEnc;
    type Error = Error;

    fn keygen(rng: &mut impl CryptoRngCore) -> Result<(ToyDk, ToyEk), Error> {
        let d = rng.next_u32() as u8;
        Ok((ToyDk(d), ToyEk(d)))
    }
    fn enc(ek: &ToyEk, rng: &mut impl CryptoRngCore) -> Result<(Self::SessionKey, ToyEnc), Error> {
        let k = rng.next_u32() as u8;
        Ok((ss(ek.0, k), ToyEnc(k ^ ek.0)))
    }
    fn dec(dk: &ToyDk, enc: &ToyEnc) -> Result<Self::SessionKey, Error> {
        Ok(ss(dk.0, enc.0 ^ dk.0))
    }
}
