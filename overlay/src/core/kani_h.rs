//! Builders and abstract views shared by the contract harnesses, plus the
//! contracts on the items of `core/mod.rs`.
//!
//! Child module of `crate::core` so that private fields are reachable.
#![allow(non_snake_case)]
use super::*;
use crate::abe_policy::AccessStructure;
use cosmian_crypto_core::FixedSizeCBytes;
use crate::kani_verif::*;
pub(crate) use crate::vcollections::LinkedList as LList;

pub(crate) type Sk = <ElGamal as Nike>::SecretKey;
pub(crate) type Pk = <ElGamal as Nike>::PublicKey;
pub(crate) type Dk = <MlKem as Kem>::DecapsulationKey;
pub(crate) type Ek = <MlKem as Kem>::EncapsulationKey;

/// Symbolic scalar of the toy field (type invariant `< P` as a precondition).
pub(crate) fn any_sk() -> Sk {
    let x: u8 = kani::any();
    kani::assume(x < 251);
    Sk { 0: x }
}
pub(crate) fn any_pk() -> Pk {
    let x: u8 = kani::any();
    kani::assume(x < 251);
    Pk { 0: x }
}
pub(crate) fn sk(x: u8) -> Sk {
    Sk { 0: x }
}
pub(crate) fn classic(x: u8) -> RightSecretKey {
    RightSecretKey::Classic { sk: Sk { 0: x } }
}
pub(crate) fn hybrid(x: u8, d: u8) -> RightSecretKey {
    RightSecretKey::Hybridized { sk: Sk { 0: x }, dk: Dk { 0: d } }
}
/// Symbolic right secret key of the given flavour.
pub(crate) fn any_rsk(hybridized: bool) -> RightSecretKey {
    let x: u8 = kani::any();
    kani::assume(x < 251);
    if hybridized {
        hybrid(x, kani::any())
    } else {
        classic(x)
    }
}
pub(crate) fn right(bytes: &[u8]) -> Right {
    Right(bytes.to_vec())
}

/// Secret identity view: (hybridized, scalar, kem key or 0).
pub(crate) fn sid(k: &RightSecretKey) -> (bool, u8, u8) {
    match k {
        RightSecretKey::Hybridized { sk, dk } => (true, sk.0, dk.0),
        RightSecretKey::Classic { sk } => (false, sk.0, 0),
    }
}

pub(crate) fn any_u251() -> u8 {
    let x: u8 = kani::any();
    kani::assume(x < 251);
    x
}
/// Tracing secret key without tracer nor user.
pub(crate) fn mk_tsk0(s: u8) -> TracingSecretKey {
    TracingSecretKey { s: Sk { 0: s }, tracers: LList::new(), users: HashSet::new() }
}
/// Tracing secret key with the given tracers (secret parts), no user.
pub(crate) fn mk_tsk(s: u8, tracers: &[u8]) -> TracingSecretKey {
    let mut l = LList::new();
    let mut i = 0;
    while i < tracers.len() {
        l.push_back((Sk { 0: tracers[i] }, Pk { 0: tracers[i] }));
        i += 1;
    }
    TracingSecretKey { s: Sk { 0: s }, tracers: l, users: HashSet::new() }
}

pub(crate) fn mk_msk(tsk: TracingSecretKey, signing: bool) -> MasterSecretKey {
    MasterSecretKey {
        tsk,
        secrets: RevisionMap::new(),
        signing_key: if signing {
            let k: [u8; 16] = kani::any();
            Some(SymmetricKey::try_from_bytes(k).unwrap())
        } else {
            None
        },
        access_structure: AccessStructure::new(),
    }
}

/// Pushes `chain` (newest first) for right `r` in the master key.
pub(crate) fn msk_chain(msk: &mut MasterSecretKey, r: &Right, chain: &[(bool, RightSecretKey)]) {
    let mut i = chain.len();
    while i > 0 {
        i -= 1;
        msk.secrets.insert(r.clone(), chain[i].clone());
    }
}

/// i-th element (newest = 0) of the master chain of `r`.
pub(crate) fn msk_at<'a>(msk: &'a MasterSecretKey, r: &Right, i: usize) -> Option<&'a (bool, RightSecretKey)> {
    match msk.secrets.get(r) {
        None => None,
        Some(l) => {
            let mut it = l.iter();
            let mut k = 0;
            let mut cur = it.next();
            while k < i && cur.is_some() {
                cur = it.next();
                k += 1;
            }
            cur
        }
    }
}
pub(crate) fn msk_len(msk: &MasterSecretKey, r: &Right) -> usize {
    msk.secrets.chain_length(r)
}

pub(crate) fn usk_chain_of<'a>(usk: &'a RevisionVec<Right, RightSecretKey>, r: &Right) -> Option<&'a LList<RightSecretKey>> {
    let mut res = None;
    let mut n = 0;
    for (k, l) in usk.iter() {
        if k == r {
            res = Some(l);
            n += 1;
        }
    }
    assert!(n <= 1, "a user key holds at most one chain per right");
    res
}
pub(crate) fn ll_at<T>(l: &LList<T>, i: usize) -> Option<&T> {
    let mut it = l.iter();
    let mut k = 0;
    let mut cur = it.next();
    while k < i && cur.is_some() {
        cur = it.next();
        k += 1;
    }
    cur
}
