//! Builders and abstract views shared by the contract harnesses, plus the
//! contracts on the items of `core/mod.rs`.
//!
//! Child module of `crate::core` so that private fields are reachable.
#![allow(non_snake_case)]
use super::*;
use crate::abe_policy::AccessStructure;
use cosmian_crypto_core::FixedSizeCBytes;
use crate::kani_verif::*;
pub(crate) use crate::vcollections::LinkedList as LList;

pub(crate) type Sk = <ElGamal as Nike>::SecretKey;
pub(crate) type Pk = <ElGamal as Nike>::PublicKey;
pub(crate) type Dk = <MlKem as Kem>::DecapsulationKey;
pub(crate) type Ek = <MlKem as Kem>::EncapsulationKey;
pub(crate) type KemEnc = <MlKem as Kem>::Encapsulation;

/// Symbolic scalar of the toy field (type invariant `< P` as a precondition).
pub(crate) fn any_sk() -> Sk {
    let x: u8 = kani::any();
    kani::assume((x as u32) < crate::core::nike::toy_p());
    Sk { 0: x }
}
pub(crate) fn any_pk() -> Pk {
    let x: u8 = kani::any();
    kani::assume((x as u32) < crate::core::nike::toy_p());
    Pk { 0: x }
}
pub(crate) fn sk(x: u8) -> Sk {
    Sk { 0: x }
}
pub(crate) fn classic(x: u8) -> RightSecretKey {
    RightSecretKey::Classic { sk: Sk { 0: x } }
}
pub(crate) fn hybrid(x: u8, d: u8) -> RightSecretKey {
    RightSecretKey::Hybridized { sk: Sk { 0: x }, dk: Dk { 0: d } }
}
/// Symbolic right secret key of the given flavour.
pub(crate) fn any_rsk(hybridized: bool) -> RightSecretKey {
    let x: u8 = kani::any();
    kani::assume((x as u32) < crate::core::nike::toy_p());
    if hybridized {
        hybrid(x, kani::any())
    } else {
        classic(x)
    }
}
pub(crate) fn right(bytes: &[u8]) -> Right {
    Right(bytes.to_vec())
}

/// Secret identity view: (hybridized, scalar, kem key or 0).
pub(crate) fn sid(k: &RightSecretKey) -> (bool, u8, u8) {
    match k {
        RightSecretKey::Hybridized { sk, dk } => (true, sk.0, dk.0),
        RightSecretKey::Classic { sk } => (false, sk.0, 0),
    }
}

pub(crate) fn any_fe() -> u8 {
    let x: u8 = kani::any();
    kani::assume((x as u32) < crate::core::nike::toy_p());
    x
}
/// Tracing secret key without tracer nor user.
pub(crate) fn mk_tsk0(s: u8) -> TracingSecretKey {
    TracingSecretKey { s: Sk { 0: s }, tracers: LList::new(), users: HashSet::new() }
}
/// Tracing secret key with the given tracers (secret parts), no user.
pub(crate) fn mk_tsk(s: u8, tracers: &[u8]) -> TracingSecretKey {
    let mut l = LList::new();
    let mut i = 0;
    while i < tracers.len() {
        l.push_back((Sk { 0: tracers[i] }, Pk { 0: tracers[i] }));
        i += 1;
    }
    TracingSecretKey { s: Sk { 0: s }, tracers: l, users: HashSet::new() }
}

pub(crate) fn mk_msk(tsk: TracingSecretKey, signing: bool) -> MasterSecretKey {
    MasterSecretKey {
        tsk,
        secrets: RevisionMap::new(),
        signing_key: if signing {
            let k: [u8; 16] = kani::any();
            Some(SymmetricKey::try_from_bytes(k).unwrap())
        } else {
            None
        },
        access_structure: AccessStructure::new(),
    }
}

/// Pushes `chain` (newest first) for right `r` in the master key.
pub(crate) fn msk_chain(msk: &mut MasterSecretKey, r: &Right, chain: &[(bool, RightSecretKey)]) {
    let mut i = chain.len();
    while i > 0 {
        i -= 1;
        msk.secrets.insert(r.clone(), chain[i].clone());
    }
}

/// i-th element (newest = 0) of the master chain of `r`.
pub(crate) fn msk_at<'a>(msk: &'a MasterSecretKey, r: &Right, i: usize) -> Option<&'a (bool, RightSecretKey)> {
    match msk.secrets.get(r) {
        None => None,
        Some(l) => {
            let mut it = l.iter();
            let mut k = 0;
            let mut cur = it.next();
            while k < i && cur.is_some() {
                cur = it.next();
                k += 1;
            }
            cur
        }
    }
}
pub(crate) fn msk_len(msk: &MasterSecretKey, r: &Right) -> usize {
    msk.secrets.chain_length(r)
}

pub(crate) fn usk_chain_of<'a>(usk: &'a RevisionVec<Right, RightSecretKey>, r: &Right) -> Option<&'a LList<RightSecretKey>> {
    let mut res = None;
    let mut n = 0;
    for (k, l) in usk.iter() {
        if k == r {
            res = Some(l);
            n += 1;
        }
    }
    assert!(n <= 1, "a user key holds at most one chain per right");
    res
}
pub(crate) fn ll_at<T>(l: &LList<T>, i: usize) -> Option<&T> {
    let mut it = l.iter();
    let mut k = 0;
    let mut cur = it.next();
    while k < i && cur.is_some() {
        cur = it.next();
        k += 1;
    }
    cur
}

// ---------------------------------------------------------------------------
// loop-free views
// ---------------------------------------------------------------------------

/// master chain of `r` (first four elements, newest first); all `None` when the right is absent
pub(crate) fn mchain(msk: &MasterSecretKey, r: &Right) -> [Option<(bool, RightSecretKey)>; 4] {
    match msk.secrets.get(r) {
        Some(l) => view4(l),
        None => [None, None, None, None],
    }
}
pub(crate) fn mulp(a: u8, b: u8) -> u8 {
    ((a as u32 * b as u32) % crate::core::nike::toy_p()) as u8
}
pub(crate) fn addp(a: u8, b: u8) -> u8 {
    ((a as u32 + b as u32) % crate::core::nike::toy_p()) as u8
}
/// n-th chain of a user key (insertion order), loop-free for n < 3
pub(crate) fn uchain(usk: &RevisionVec<Right, RightSecretKey>, n: usize) -> Option<(Right, [Option<RightSecretKey>; 4])> {
    let mut it = usk.iter();
    let a = it.next();
    let b = it.next();
    let c = it.next();
    let sel = if n == 0 { a } else if n == 1 { b } else { c };
    sel.map(|(k, l)| (k.clone(), view4(l)))
}
pub(crate) fn hint(h: bool) -> crate::abe_policy::EncryptionHint {
    if h { crate::abe_policy::EncryptionHint::Hybridized } else { crate::abe_policy::EncryptionHint::Classic }
}
pub(crate) fn status(enc: bool) -> crate::abe_policy::AttributeStatus {
    if enc { crate::abe_policy::AttributeStatus::EncryptDecrypt } else { crate::abe_policy::AttributeStatus::DecryptOnly }
}
/// user id view: first three markers
pub(crate) fn id_view(id: &UserId) -> [Option<u8>; 3] {
    let mut it = id.0.iter();
    let a = it.next().map(|x| x.0);
    let b = it.next().map(|x| x.0);
    let c = it.next().map(|x| x.0);
    [a, b, c]
}

// ---------------------------------------------------------------------------
// TracingSecretKey (C17)
// ---------------------------------------------------------------------------

// @obl props=C17,C16 tier=quick class=bounded fn=core::TracingSecretKey::generate_user_id shape="2 tracers (tracing level 1), all scalars symbolic over the toy field Z_13"
kproof! {
    #[kani::unwind(8)]
    fn tsk__generate_user_id_relation() {
        let mut rng = SymRng;
        let (s, t0, t1): (u8, u8, u8) = (any_fe(), any_fe(), any_fe());
        kani::assume(t1 != 0);
        let mut tsk = mk_tsk(s, &[t0, t1]);
        let id = ok_or_forget(tsk.generate_user_id(&mut rng));
        assert!(id.is_some(), "C17: an identifier can be generated whenever the last tracer is invertible");
        let id = id.unwrap();
        let v = id_view(&id);
        assert!(v[0].is_some() && v[1].is_some() && v[2].is_none(), "C17: one marker per tracer");
        assert!(addp(mulp(v[0].unwrap(), t0), mulp(v[1].unwrap(), t1)) == s, "C17: sum of marker_i * tracer_i equals the binding scalar, for all field elements");
        assert!(tsk.users.len() == 1 && tsk.is_known(&id), "C17: the new identifier is recorded");
        assert!(tsk._validate_user_id(&id), "C17: the identifier validates against the tracers");
        std::mem::forget(tsk);
        std::mem::forget(id);
    }
}

// @obl props=C17 tier=quick class=bounded fn=core::TracingSecretKey::generate_user_id shape="3 tracers (tracing level 2), all scalars symbolic over the toy field Z_13"
kproof! {
    #[kani::unwind(8)]
    fn tsk__generate_user_id_relation_level2() {
        let mut rng = SymRng;
        let (s, t0, t1, t2): (u8, u8, u8, u8) = (any_fe(), any_fe(), any_fe(), any_fe());
        kani::assume(t2 != 0);
        let mut tsk = mk_tsk(s, &[t0, t1, t2]);
        let id = ok_or_forget(tsk.generate_user_id(&mut rng)).unwrap();
        let mut it = id.0.iter();
        let (a0, a1, a2) = (it.next().unwrap().0, it.next().unwrap().0, it.next().unwrap().0);
        assert!(it.next().is_none(), "C17: one marker per tracer");
        assert!(addp(addp(mulp(a0, t0), mulp(a1, t1)), mulp(a2, t2)) == s, "C17: sum of marker_i * tracer_i equals the binding scalar at tracing level 2 (each marker paired with ITS tracer)");
        assert!(tsk.is_known(&id) && tsk._validate_user_id(&id), "C17: the identifier is recorded and validates");
        std::mem::forget(tsk);
        std::mem::forget(id);
    }
}

// @obl props=C17,C09 tier=quick class=bounded fn=core::TracingSecretKey::refresh_id shape="2 tracers; known id of same level / unknown id"
kproof! {
    #[kani::unwind(8)]
    fn tsk__refresh_id_known_unknown() {
        let mut rng = SymRng;
        let mut tsk = mk_tsk(any_fe(), &[any_fe(), 1]);
        let (a, b, c): (u8, u8, u8) = (any_fe(), any_fe(), any_fe());
        kani::assume(c != a);
        let mk = |x: u8, y: u8| { let mut l = LList::new(); l.push_back(sk(x)); l.push_back(sk(y)); UserId(l) };
        tsk.add_user(mk(a, b));
        let kept = ok_or_forget(tsk.refresh_id(&mut rng, mk(a, b)));
        assert!(kept.is_some(), "C09/C17: a known identifier is accepted");
        assert!(id_view(&kept.unwrap()) == [Some(a), Some(b), None], "C17: an identifier of the current tracing level is returned unchanged");
        assert!(tsk.users.len() == 1 && tsk.is_known(&mk(a, b)), "C17: the set of known identifiers is unchanged");
        let e = err_kind(tsk.refresh_id(&mut rng, mk(c, b)));
        assert!(e == E_TRACING, "C09/C17: an identifier the master key does not know is refused (Tracing)");
        assert!(tsk.users.len() == 1 && tsk.is_known(&mk(a, b)) && !tsk.is_known(&mk(c, b)), "C10/C17: a refused identifier changes nothing");
        std::mem::forget(tsk);
    }
}

// @obl props=C17,C01 tier=quick class=proved fn=core::TracingSecretKey::set_traps shape="2 tracers; also tpk, binding_point, UserSecretKey::set_traps, MasterPublicKey::set_traps"
kproof! {
    #[kani::unwind(8)]
    fn tsk__traps_tpk_binding_point() {
        let (s, t0, t1, r): (u8, u8, u8, u8) = (any_fe(), any_fe(), any_fe(), any_fe());
        let tsk = mk_tsk(s, &[t0, t1]);
        let c = tsk.set_traps(&sk(r));
        assert!(c.len() == 2 && c[0].0 == mulp(t0, r) && c[1].0 == mulp(t1, r), "C01/C17: trap_i = P_i * r for every tracer, in order");
        let tpk = tsk.tpk();
        let mut it = tpk.0.iter();
        assert!(it.next().map(|p| p.0) == Some(t0) && it.next().map(|p| p.0) == Some(t1) && it.next().is_none(), "C17: tpk lists the public tracers in order");
        assert!(tsk.binding_point().0 == s, "C01: the binding point is s.G");
        assert!(tsk.tracing_level() == 1 && tpk.tracing_level() == 1, "C17: tracing level = number of tracers - 1");
        let usk = UserSecretKey { id: UserId(LList::new()), ps: vec![Pk { 0: t0 }, Pk { 0: t1 }], secrets: RevisionVec::new(), signature: None };
        let cu = usk.set_traps(&sk(r));
        assert!(cu.len() == 2 && cu[0].0 == mulp(t0, r) && cu[1].0 == mulp(t1, r), "C01: a user key recomputes the same traps from its tracing points");
        let mpk = MasterPublicKey { tpk, encryption_keys: HashMap::new(), access_structure: AccessStructure::new() };
        let cm = mpk.set_traps(&sk(r));
        assert!(cm.len() == 2 && cm[0].0 == mulp(t0, r) && cm[1].0 == mulp(t1, r), "C01: the public key computes the same traps");
        assert!(mpk.tracing_level() == 1, "C17: tracing level of the public key");
        std::mem::forget(tsk);
        std::mem::forget(mpk);
    }
}

// @obl props=C11,C01 tier=quick class=proved fn=core::RightSecretKey::cpk shape="both flavours; random, is_hybridized, drop_hybridization"
kproof! {
    #[kani::unwind(8)]
    fn rsk__flavour_and_public_key() {
        let mut rng = SymRng;
        let (h, x, d): (u8, u8, u8) = (any_fe(), any_fe(), kani::any());
        match hybrid(x, d).cpk(&Pk { 0: h }) {
            RightPublicKey::Hybridized { H, ek } => assert!(H.0 == mulp(h, x) && ek.0 == d, "C01/C11: cpk of a hybridized secret = (h.sk, ek(dk))"),
            _ => assert!(false, "C11: cpk preserves the flavour"),
        }
        match classic(x).cpk(&Pk { 0: h }) {
            RightPublicKey::Classic { H } => assert!(H.0 == mulp(h, x), "C01: cpk of a classic secret = h.sk"),
            _ => assert!(false, "C11: cpk preserves the flavour"),
        }
        assert!(hybrid(x, d).is_hybridized() && !classic(x).is_hybridized(), "C11: is_hybridized tells the flavour");
        assert!(hybrid(x, d).drop_hybridization() == classic(x) && classic(x).drop_hybridization() == classic(x), "C11: dropping hybridization keeps the scalar and removes the KEM key");
        let a = ok_or_forget(RightSecretKey::random(&mut rng, true)).unwrap();
        let b = ok_or_forget(RightSecretKey::random(&mut rng, false)).unwrap();
        assert!(a.is_hybridized() && !b.is_hybridized(), "C11: a fresh secret has the requested flavour");
        assert!(RightPublicKey::Hybridized { H: Pk { 0: h }, ek: Ek { 0: d } }.is_hybridized() && !RightPublicKey::Classic { H: Pk { 0: h } }.is_hybridized(), "C11: public flavour");
    }
}

// @obl props=C14 tier=quick class=proved fn=core::XEnc::tracing_level shape="empty sequences: XEnc, UserId, TracingPublicKey, TracingSecretKey; XEnc::count"
kproof! {
    #[kani::unwind(8)]
    fn accessors__no_underflow_on_empty() {
        let enc = XEnc { tag: kani::any(), c: Vec::new(), encapsulations: Encapsulations::CEncs(Vec::new()) };
        assert!(enc.tracing_level() == 0 && enc.count() == 0, "C14: accessors of an encapsulation without trap do not underflow");
        let usk = UserSecretKey { id: UserId(LList::new()), ps: Vec::new(), secrets: RevisionVec::new(), signature: None };
        assert!(usk.tracing_level() == 0, "C14: accessors of a user key without marker do not underflow");
        let mpk = MasterPublicKey { tpk: TracingPublicKey(LList::new()), encryption_keys: HashMap::new(), access_structure: AccessStructure::new() };
        assert!(mpk.tracing_level() == 0, "C14: accessors of a public key without tracer do not underflow");
        let tsk = mk_tsk0(1);
        assert!(tsk.tracing_level() == 0, "C14: accessors of a tracing key without tracer do not underflow");
        let enc2 = XEnc { tag: kani::any(), c: vec![Pk { 0: 1 }, Pk { 0: 2 }], encapsulations: Encapsulations::HEncs(vec![(KemEnc { 0: 1 }, [0u8; 32])]) };
        assert!(enc2.tracing_level() == 1 && enc2.count() == 1, "C17: tracing level and count of a regular encapsulation");
        std::mem::forget(mpk);
    }
}

// @obl props=C17 tier=quick class=bounded fn=core::TracingSecretKey::refresh_id shape="master key with 2 tracers, known identifier with 3 markers (older tracing level): a new identifier is issued and the old one forgotten"
kproof! {
    #[kani::unwind(8)]
    fn tsk__refresh_id_level_mismatch_reissues() {
        let mut rng = SymRng;
        let (s, t0, t1): (u8, u8, u8) = (any_fe(), any_fe(), any_fe());
        kani::assume(t1 != 0);
        let mut tsk = mk_tsk(s, &[t0, t1]);
        let mk3 = |x: u8, y: u8, z: u8| { let mut l = LList::new(); l.push_back(sk(x)); l.push_back(sk(y)); l.push_back(sk(z)); UserId(l) };
        let (a, b, c): (u8, u8, u8) = (any_fe(), any_fe(), any_fe());
        tsk.add_user(mk3(a, b, c));
        let new_id = ok_or_forget(tsk.refresh_id(&mut rng, mk3(a, b, c)));
        assert!(new_id.is_some(), "C09/C17: a known identifier of another tracing level is accepted");
        let new_id = new_id.unwrap();
        let v = id_view(&new_id);
        assert!(v[0].is_some() && v[1].is_some() && v[2].is_none(), "C17: the re-issued identifier has one marker per current tracer");
        assert!(addp(mulp(v[0].unwrap(), t0), mulp(v[1].unwrap(), t1)) == s, "C17: the re-issued identifier satisfies the tracing relation");
        assert!(tsk.is_known(&new_id) && !tsk.is_known(&mk3(a, b, c)) && tsk.users.len() == 1, "C17: the new identifier replaces the old one in the registry");
        std::mem::forget(tsk);
        std::mem::forget(new_id);
    }
}
