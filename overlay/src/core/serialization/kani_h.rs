//! Contracts on the `Serializable` impls of `core/serialization/mod.rs` under the toy instances:
//! `write` appends exactly `length()` bytes and returns that number; `read(write(x)) == x` consuming
//! exactly those bytes.  Shapes are concrete, scalar / byte values symbolic.
use super::*;
use crate::core::kani_h::*;
use crate::kani_verif::*;
use cosmian_crypto_core::bytes_ser_de::{Deserializer, Serializable, Serializer};

/// (bytes written, announced length, returned count)
fn ser<T: Serializable<Error = Error>>(x: &T) -> (Vec<u8>, usize, usize) {
    let mut s = Serializer::new();
    let n = ok_or_forget(x.write(&mut s)).unwrap();
    let v = s.finalize().to_vec();
    (v, x.length(), n)
}

macro_rules! roundtrip_contract {
    ($name:ident, $ty:ty, $mk:expr) => {
        kproof! {
            #[kani::unwind(8)]
            fn $name() {
                let x: $ty = $mk;
                let (bytes, len, n) = ser(&x);
                assert!(bytes.len() == len, "C13: serialization has exactly the announced length");
                assert!(n == len, "C13: write returns the number of bytes written");
                let mut de = Deserializer::new(&bytes);
                let y = ok_or_forget(<$ty>::read(&mut de));
                assert!(y.is_some(), "C13: a serialized object deserializes");
                assert!(de.value().is_empty(), "C13: read consumes exactly the bytes written");
                assert!(y.unwrap() == x, "C13/C11/C06: the deserialized object equals the original (flavours, flags, order included)");
                std::mem::forget(x);
            }
        }
    };
}
// @obl props=C13,C11 tier=quick class=bounded fn=core::serialization::RightSecretKey::read shape="hybridized secret, symbolic scalar and KEM key" loops="volatile_set=40;zeroize=40"
roundtrip_contract!(ser__right_secret_key_hybridized, RightSecretKey, hybrid(any_fe(), kani::any()));
// @obl props=C13,C11 tier=quick class=bounded fn=core::serialization::RightSecretKey::read shape="classic secret" loops="volatile_set=40;zeroize=40"
roundtrip_contract!(ser__right_secret_key_classic, RightSecretKey, classic(any_fe()));
// @obl props=C13,C11 tier=quick class=bounded fn=core::serialization::RightPublicKey::read shape="hybridized public key" loops="volatile_set=40;zeroize=40"
roundtrip_contract!(ser__right_public_key_hybridized, RightPublicKey, RightPublicKey::Hybridized { H: Pk { 0: any_fe() }, ek: Ek { 0: kani::any() } });
// @obl props=C13,C17 tier=quick class=bounded fn=core::serialization::UserId::read shape="2 markers" loops="volatile_set=40;zeroize=40"
roundtrip_contract!(ser__user_id, UserId, { let mut l = LList::new(); l.push_back(sk(any_fe())); l.push_back(sk(any_fe())); UserId(l) });
// @obl props=C13,C17 tier=quick class=bounded fn=core::serialization::TracingSecretKey::read shape="2 tracers, 1 user (2 markers)" loops="volatile_set=40;zeroize=40"
roundtrip_contract!(ser__tracing_secret_key, TracingSecretKey, {
    let mut t = mk_tsk(any_fe(), &[any_fe(), any_fe()]);
    let mut l = LList::new(); l.push_back(sk(any_fe())); l.push_back(sk(any_fe()));
    t.add_user(UserId(l));
    t
});
// @obl props=C13,C07 tier=quick class=bounded fn=core::serialization::XEnc::read shape="2 traps, classic, 1 component; symbolic tag and masked seed" loops="volatile_set=80;zeroize=80;memcmp=34"
roundtrip_contract!(ser__xenc_classic, XEnc, XEnc { tag: kani::any(), c: vec![Pk { 0: any_fe() }, Pk { 0: any_fe() }], encapsulations: Encapsulations::CEncs(vec![kani::any()]) });
// @obl props=C13,C07,C11 tier=quick class=bounded fn=core::serialization::XEnc::read shape="1 trap, hybridized, 1 component" loops="volatile_set=80;zeroize=80;memcmp=34"
roundtrip_contract!(ser__xenc_hybridized, XEnc, XEnc { tag: kani::any(), c: vec![Pk { 0: any_fe() }], encapsulations: Encapsulations::HEncs(vec![(KemEnc { 0: kani::any() }, kani::any())]) });

// (round-trips of whole user / master keys did not finish in 15 min under CBMC; covered natively by serialization__length_write_read_roundtrip)
