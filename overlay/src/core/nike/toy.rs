//! Toy key-homomorphic NIKE over the additive group (Z_p, +), p = 13 (a small prime keeps the
//! modular arithmetic cheap for the SAT solver; the trait laws hold exactly for any prime).
//! Scalars are the field Z_p; a "point" k*G is represented by k (G = 1).
//! Every law of `KeyHomomorphicNike` holds exactly; DLP is trivial, which
//! is irrelevant to functional properties.
use std::iter::Sum;
use std::ops::{Add, AddAssign, Div, Mul, MulAssign, Sub, SubAssign};

use cosmian_crypto_core::bytes_ser_de::{Deserializer, Serializable, Serializer};
use cosmian_crypto_core::reexport::rand_core::CryptoRngCore;
use zeroize::Zeroize;

use crate::traits::{Group, KeyHomomorphicNike, Nike, One, Ring, Sampling, Zero};
use crate::Error;

pub const P: u32 = 13;

#[inline]
fn red(x: u32) -> u8 {
    (x % P) as u8
}

fn inv(x: u8) -> Option<u8> {
    // table of inverses modulo 13 (checked by the obligation `toy_field__laws`)
    match x {
        1 => Some(1),
        2 => Some(7),
        3 => Some(9),
        4 => Some(10),
        5 => Some(8),
        6 => Some(11),
        7 => Some(2),
        8 => Some(5),
        9 => Some(3),
        10 => Some(4),
        11 => Some(6),
        12 => Some(12),
        _ => None,
    }
}

#[derive(Clone, Debug, PartialEq, Eq, Hash, Zeroize)]
pub struct ToyScalar(pub u8);
#[derive(Clone, Debug, PartialEq, Eq, Zeroize)]
pub struct ToyPoint(pub u8);

macro_rules! group_impl {
    ($t:ident) => {
        impl Zero for $t {
            fn zero() -> Self {
                Self(0)
            }
            fn is_zero(&self) -> bool {
                self.0 == 0
            }
        }
        impl Add for $t {
            type Output = Self;
            fn add(self, rhs: Self) -> Self {
                Self(red(self.0 as u32 + rhs.0 as u32))
            }
        }
        impl Add<&$t> for $t {
            type Output = Self;
            fn add(self, rhs: &$t) -> Self {
                Self(red(self.0 as u32 + rhs.0 as u32))
            }
        }
        impl Add<&$t> for &$t {
            type Output = $t;
            fn add(self, rhs: &$t) -> $t {
                $t(red(self.0 as u32 + rhs.0 as u32))
            }
        }
        impl AddAssign for $t {
            fn add_assign(&mut self, rhs: Self) {
                self.0 = red(self.0 as u32 + rhs.0 as u32)
            }
        }
        impl Sub for $t {
            type Output = Self;
            fn sub(self, rhs: Self) -> Self {
                Self(red(self.0 as u32 + P - rhs.0 as u32))
            }
        }
        impl Sub<&$t> for $t {
            type Output = Self;
            fn sub(self, rhs: &$t) -> Self {
                Self(red(self.0 as u32 + P - rhs.0 as u32))
            }
        }
        impl Sub<&$t> for &$t {
            type Output = $t;
            fn sub(self, rhs: &$t) -> $t {
                $t(red(self.0 as u32 + P - rhs.0 as u32))
            }
        }
        impl SubAssign for $t {
            fn sub_assign(&mut self, rhs: Self) {
                self.0 = red(self.0 as u32 + P - rhs.0 as u32)
            }
        }
        impl Sum for $t {
            fn sum<I: Iterator<Item = Self>>(iter: I) -> Self {
                iter.fold(Self::zero(), |a, p| a + p)
            }
        }
        impl Group for $t {}
        impl Serializable for $t {
            type Error = Error;
            fn length(&self) -> usize {
                1
            }
            fn write(&self, ser: &mut Serializer) -> Result<usize, Error> {
                ser.write_array(&[self.0]).map_err(Error::from)
            }
            fn read(de: &mut Deserializer) -> Result<Self, Error> {
                let b = de.read_array::<1>()?;
                if (b[0] as u32) < P {
                    Ok(Self(b[0]))
                } else {
                    Err(Error::ConversionFailed(String::new()))
                }
            }
        }
    };
}
group_impl!(ToyScalar);
group_impl!(ToyPoint);

impl One for ToyScalar {
    fn one() -> Self {
        Self(1)
    }
    fn is_one(&self) -> bool {
        self.0 == 1
    }
}
impl Mul for ToyScalar {
    type Output = Self;
    fn mul(self, rhs: Self) -> Self {
        Self(red(self.0 as u32 * rhs.0 as u32))
    }
}
impl MulAssign for ToyScalar {
    fn mul_assign(&mut self, rhs: Self) {
        self.0 = red(self.0 as u32 * rhs.0 as u32)
    }
}
impl Mul<&ToyScalar> for ToyScalar {
    type Output = Self;
    fn mul(self, rhs: &ToyScalar) -> Self {
        Self(red(self.0 as u32 * rhs.0 as u32))
    }
}
impl Mul<&ToyScalar> for &ToyScalar {
    type Output = ToyScalar;
    fn mul(self, rhs: &ToyScalar) -> ToyScalar {
        ToyScalar(red(self.0 as u32 * rhs.0 as u32))
    }
}
impl Div for ToyScalar {
    type Output = Result<Self, Error>;
    fn div(self, rhs: Self) -> Self::Output {
        &self / &rhs
    }
}
impl Div<&ToyScalar> for ToyScalar {
    type Output = Result<Self, Error>;
    fn div(self, rhs: &ToyScalar) -> Self::Output {
        &self / rhs
    }
}
impl Div<&ToyScalar> for &ToyScalar {
    type Output = Result<ToyScalar, Error>;
    fn div(self, rhs: &ToyScalar) -> Self::Output {
        inv(rhs.0)
            .map(|i| ToyScalar(red(self.0 as u32 * i as u32)))
            .ok_or_else(|| Error::OperationNotPermitted(String::new()))
    }
}
impl Ring for ToyScalar {
    type DivError = Error;
}
impl Sampling for ToyScalar {
    fn random(rng: &mut impl CryptoRngCore) -> Self {
        Self(red(rng.next_u32()))
    }
    fn hash(seed: &[u8]) -> Self {
        let out = crate::kani_verif::oracle::query(crate::kani_verif::oracle::DOM_G, seed);
        Self(red(out[0] as u32))
    }
}
impl From<&ToyScalar> for ToyPoint {
    fn from(s: &ToyScalar) -> Self {
        Self(s.0)
    }
}
impl Mul<ToyScalar> for ToyPoint {
    type Output = Self;
    fn mul(self, rhs: ToyScalar) -> Self {
        Self(red(self.0 as u32 * rhs.0 as u32))
    }
}
impl MulAssign<ToyScalar> for ToyPoint {
    fn mul_assign(&mut self, rhs: ToyScalar) {
        self.0 = red(self.0 as u32 * rhs.0 as u32)
    }
}
impl Mul<&ToyScalar> for ToyPoint {
    type Output = Self;
    fn mul(self, rhs: &ToyScalar) -> Self {
        Self(red(self.0 as u32 * rhs.0 as u32))
    }
}
impl Mul<&ToyScalar> for &ToyPoint {
    type Output = ToyPoint;
    fn mul(self, rhs: &ToyScalar) -> ToyPoint {
        ToyPoint(red(self.0 as u32 * rhs.0 as u32))
    }
}

pub struct Toy;
impl Nike for Toy {
    type SecretKey = ToyScalar;
    type PublicKey = ToyPoint;
    type SessionKey = ToyPoint;
    type Error = Error;
    fn keygen(rng: &mut impl CryptoRngCore) -> Result<(ToyScalar, ToyPoint), Error> {
        let sk = ToyScalar::random(rng);
        let pk = ToyPoint::from(&sk);
        Ok((sk, pk))
    }
    fn session_key(sk: &ToyScalar, pk: &ToyPoint) -> Result<ToyPoint, Error> {
        Ok(pk * sk)
    }
}
impl KeyHomomorphicNike for Toy {}
