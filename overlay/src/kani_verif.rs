//! Stubs, ghost logs and symbolic RNG used by the contract harnesses (compiled only under cfg(kani)).
#![allow(static_mut_refs)]

pub mod oracle {
    //! Ghost hash log (recording stub): every hash / KDF / KEM-derivation call appends its domain, its exact
    //! input byte stream and its (unconstrained, symbolic) output.
    pub const DOM_G: u8 = 1;
    pub const DOM_KEM: u8 = 2;
    pub const DOM_SHA3_256: u8 = 3;
    pub const DOM_SHA3_384: u8 = 4;
    pub const DOM_SHA3_512: u8 = 5;
    pub const DOM_KMAC: u8 = 6;
    pub const MAXQ: usize = 12;
    pub const MAXIN: usize = 104;
    pub const OUT: usize = 64;
    pub static mut N: usize = 0;
    pub static mut DOMS: [u8; MAXQ] = [0; MAXQ];
    pub static mut LENS: [usize; MAXQ] = [0; MAXQ];
    pub static mut INS: [[u8; MAXIN]; MAXQ] = [[0; MAXIN]; MAXQ];
    pub static mut OUTS: [[u8; OUT]; MAXQ] = [[0; OUT]; MAXQ];
    pub fn query(dom: u8, input: &[u8]) -> [u8; OUT] {
        unsafe {
            assert!(input.len() <= MAXIN, "BOUND: oracle input too long");
            assert!(N < MAXQ, "BOUND: too many oracle queries");
            let out: [u8; OUT] = kani::any();
            DOMS[N] = dom;
            LENS[N] = input.len();
            let mut buf = [0u8; MAXIN];
            buf[..input.len()].copy_from_slice(input);
            INS[N] = buf;
            OUTS[N] = out;
            N += 1;
            out
        }
    }
    /// log accessors
    pub fn n() -> usize { unsafe { N } }
    pub fn dom(q: usize) -> u8 { unsafe { DOMS[q] } }
    pub fn len(q: usize) -> usize { unsafe { LENS[q] } }
    pub fn input(q: usize) -> [u8; MAXIN] { unsafe { INS[q] } }
    pub fn out(q: usize) -> [u8; OUT] { unsafe { OUTS[q] } }
    /// bytes [a, a+32) of the input of query q
    pub fn in32(q: usize, a: usize) -> [u8; 32] {
        let i = input(q);
        let mut r = [0u8; 32];
        r.copy_from_slice(&i[a..a + 32]);
        r
    }
    pub fn out32(q: usize, a: usize) -> [u8; 32] {
        let o = out(q);
        let mut r = [0u8; 32];
        r.copy_from_slice(&o[a..a + 32]);
        r
    }
}

pub mod hstub {
    use super::oracle;
    use tiny_keccak::{Kmac, Sha3};
    pub static mut ALIVE: bool = false;
    pub static mut DOM: u8 = 0;
    pub static mut LEN: usize = 0;
    pub static mut BUF: [u8; oracle::MAXIN] = [0; oracle::MAXIN];

    fn start(dom: u8) {
        unsafe {
            assert!(!ALIVE, "interleaved hashers");
            ALIVE = true;
            DOM = dom;
            LEN = 0;
        }
    }
    fn absorb(input: &[u8]) {
        unsafe {
            assert!(ALIVE);
            assert!(LEN + input.len() <= oracle::MAXIN, "BOUND: hash input too long");
            BUF[LEN..LEN + input.len()].copy_from_slice(input);
            LEN += input.len();
        }
    }
    fn squeeze(out: &mut [u8]) {
        unsafe {
            assert!(ALIVE);
            ALIVE = false;
            let o = oracle::query(DOM, &BUF[..LEN]);
            assert!(out.len() <= oracle::OUT);
            let n = out.len();
            out.copy_from_slice(&o[..n]);
        }
    }
    fn blank_sha3() -> Sha3 {
        unsafe { std::mem::MaybeUninit::<Sha3>::zeroed().assume_init() }
    }
    pub fn v256() -> Sha3 {
        start(oracle::DOM_SHA3_256);
        blank_sha3()
    }
    pub fn v384() -> Sha3 {
        start(oracle::DOM_SHA3_384);
        blank_sha3()
    }
    pub fn v512() -> Sha3 {
        start(oracle::DOM_SHA3_512);
        blank_sha3()
    }
    pub fn sha3_update(_h: &mut Sha3, input: &[u8]) {
        absorb(input)
    }
    pub fn sha3_finalize(_h: Sha3, out: &mut [u8]) {
        squeeze(out)
    }
    pub fn kmac_v256(key: &[u8], custom: &[u8]) -> Kmac {
        start(oracle::DOM_KMAC);
        absorb(key);
        absorb(custom);
        unsafe { std::mem::MaybeUninit::<Kmac>::zeroed().assume_init() }
    }
    pub fn kmac_update(_h: &mut Kmac, input: &[u8]) {
        absorb(input)
    }
    pub fn kmac_finalize(_h: Kmac, out: &mut [u8]) {
        squeeze(out)
    }
    pub fn fixed_random_state() -> std::hash::RandomState {
        unsafe { std::mem::transmute::<(u64, u64), std::hash::RandomState>((0x0123456789abcdefu64, 0xfedcba9876543210u64)) }
    }
    pub fn noop_barrier<T: ?Sized>(_val: &T) {}
    pub fn noop_zeroize_secret<const LENGTH: usize>(_s: &mut cosmian_crypto_core::Secret<LENGTH>) {}
    pub fn right_eq(a: &crate::abe_policy::Right, b: &crate::abe_policy::Right) -> bool {
        let n = a.0.len();
        if n != b.0.len() { return false; }
        let mut i = 0;
        while i < n { if a.0[i] != b.0[i] { return false; } i += 1; }
        true
    }
    pub fn dh_write(_h: &mut std::hash::DefaultHasher, _b: &[u8]) {}
    pub fn dh_finish(_h: &std::hash::DefaultHasher) -> u64 { 0 }
    pub fn fmt_stub(_args: std::fmt::Arguments<'_>) -> String {
        String::new()
    }
}

/// Ghost RNG draw log: every `fill_bytes` draw (first 32 bytes kept) and the number of `next_u32/u64` draws.
pub mod rng_log {
    pub const MAXD: usize = 6;
    pub static mut NFILL: usize = 0;
    pub static mut FILL_LEN: [usize; MAXD] = [0; MAXD];
    pub static mut FILL: [[u8; 32]; MAXD] = [[0; 32]; MAXD];
    pub static mut NWORD: usize = 0;
    pub fn nfill() -> usize { unsafe { NFILL } }
    pub fn nword() -> usize { unsafe { NWORD } }
    pub fn fill(i: usize) -> [u8; 32] { unsafe { FILL[i] } }
    pub fn fill_len(i: usize) -> usize { unsafe { FILL_LEN[i] } }
}

pub struct SymRng;
impl cosmian_crypto_core::reexport::rand_core::RngCore for SymRng {
    fn next_u32(&mut self) -> u32 {
        unsafe { rng_log::NWORD += 1; }
        kani::any()
    }
    fn next_u64(&mut self) -> u64 {
        unsafe { rng_log::NWORD += 1; }
        kani::any()
    }
    fn fill_bytes(&mut self, dest: &mut [u8]) {
        let n = dest.len();
        assert!(n <= 64, "BOUND: RNG draw too long");
        let src: [u8; 64] = kani::any();
        dest.copy_from_slice(&src[..n]);
        unsafe {
            assert!(rng_log::NFILL < rng_log::MAXD, "BOUND: too many RNG draws");
            let mut first = [0u8; 32];
            first.copy_from_slice(&src[..32]);
            rng_log::FILL[rng_log::NFILL] = first;
            rng_log::FILL_LEN[rng_log::NFILL] = n;
            rng_log::NFILL += 1;
        }
    }
    fn try_fill_bytes(
        &mut self,
        dest: &mut [u8],
    ) -> Result<(), cosmian_crypto_core::reexport::rand_core::Error> {
        self.fill_bytes(dest);
        Ok(())
    }
}
impl cosmian_crypto_core::reexport::rand_core::CryptoRng for SymRng {}



/// Declares one obligation: a Kani proof harness with the trusted-base stubs of DESIGN §3.3 applied.
macro_rules! kproof {
    ($(#[$m:meta])* fn $name:ident() $body:block) => {
        #[kani::proof]
        #[kani::stub(tiny_keccak::Sha3::v256, crate::kani_verif::hstub::v256)]
        #[kani::stub(tiny_keccak::Sha3::v384, crate::kani_verif::hstub::v384)]
        #[kani::stub(tiny_keccak::Sha3::v512, crate::kani_verif::hstub::v512)]
        #[kani::stub(<tiny_keccak::Sha3 as tiny_keccak::Hasher>::update, crate::kani_verif::hstub::sha3_update)]
        #[kani::stub(<tiny_keccak::Sha3 as tiny_keccak::Hasher>::finalize, crate::kani_verif::hstub::sha3_finalize)]
        #[kani::stub(tiny_keccak::Kmac::v256, crate::kani_verif::hstub::kmac_v256)]
        #[kani::stub(<tiny_keccak::Kmac as tiny_keccak::Hasher>::update, crate::kani_verif::hstub::kmac_update)]
        #[kani::stub(<tiny_keccak::Kmac as tiny_keccak::Hasher>::finalize, crate::kani_verif::hstub::kmac_finalize)]
        #[kani::stub(alloc::fmt::format, crate::kani_verif::hstub::fmt_stub)]
        #[kani::stub(zeroize::optimization_barrier, crate::kani_verif::hstub::noop_barrier)]
        $(#[$m])*
        fn $name() {
            $body;
            // vacuity guard: the end of every obligation must be reachable (checked by the driver)
            kani::cover!(true, "VACUITY-GUARD: the end of the obligation is reachable");
        }
    };
}
pub(crate) use kproof;

/// Turns a `Result` into an `Option` without running the drop glue of the error
/// (the recursive drop glue of `CryptoCoreError`/`io::Error` is extremely costly for CBMC).
pub(crate) fn ok_or_forget<T>(r: Result<T, crate::Error>) -> Option<T> {
    match r {
        Ok(v) => Some(v),
        Err(e) => {
            std::mem::forget(e);
            None
        }
    }
}
/// Error variant as a small integer (messages are not compared), forgetting the error.
pub(crate) fn err_kind<T>(r: Result<T, crate::Error>) -> u8 {
    use crate::Error::*;
    match r {
        Ok(v) => {
            std::mem::forget(v);
            0
        }
        Err(e) => {
            let k = match &e {
                Kem(_) => 1,
                CryptoCoreError(_) => 2,
                KeyError(_) => 3,
                AttributeNotFound(_) => 4,
                ExistingDimension(_) => 5,
                OperationNotPermitted(_) => 6,
                InvalidBooleanExpression(_) => 7,
                InvalidAttribute(_) => 8,
                DimensionNotFound(_) => 9,
                ConversionFailed(_) => 10,
                Tracing(_) => 11,
            };
            std::mem::forget(e);
            k
        }
    }
}
pub(crate) const E_KEM: u8 = 1;
pub(crate) const E_CRYPTO: u8 = 2;
pub(crate) const E_KEY: u8 = 3;
pub(crate) const E_ATTR_NOT_FOUND: u8 = 4;
pub(crate) const E_EXISTING_DIM: u8 = 5;
pub(crate) const E_NOT_PERMITTED: u8 = 6;
pub(crate) const E_INVALID_BOOL: u8 = 7;
pub(crate) const E_INVALID_ATTR: u8 = 8;
pub(crate) const E_DIM_NOT_FOUND: u8 = 9;
pub(crate) const E_CONVERSION: u8 = 10;
pub(crate) const E_TRACING: u8 = 11;

/// `is_err()` without running the drop glue of either payload.
pub(crate) fn is_err_forget<T, E>(r: Result<T, E>) -> bool {
    match r {
        Ok(v) => {
            std::mem::forget(v);
            false
        }
        Err(e) => {
            std::mem::forget(e);
            true
        }
    }
}

/// Loop-free destructive view of a chain: its first four elements (newest first).
pub(crate) fn pop4<T>(l: &mut crate::vcollections::LinkedList<T>) -> [Option<T>; 4] {
    let a = l.pop_front();
    let b = l.pop_front();
    let c = l.pop_front();
    let d = l.pop_front();
    [a, b, c, d]
}

/// Loop-free read-only view of a chain: its first four elements (newest first).
pub(crate) fn view4<T: Clone>(l: &crate::vcollections::LinkedList<T>) -> [Option<T>; 4] {
    let mut it = l.iter();
    let a = it.next().cloned();
    let b = it.next().cloned();
    let c = it.next().cloned();
    let d = it.next().cloned();
    [a, b, c, d]
}

/// Ghost allocation log: every `with_capacity` request seen by the substituted containers.
pub mod alloc_log {
    pub static mut MAX_REQ: usize = 0;
    pub static mut COUNT: usize = 0;
    pub fn request(n: usize) {
        unsafe {
            if n > MAX_REQ {
                MAX_REQ = n;
            }
            COUNT += 1;
        }
    }
}
