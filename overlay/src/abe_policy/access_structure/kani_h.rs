//! No Kani obligation could be discharged on `AccessStructure`: `add_attribute`, `omega` / `combine` and the
//! rights generators exhaust CBMC (15 min, 8 GB) or drive its pointer model into impossible states even on
//! two unordered dimensions of two attributes (DESIGN §2).  Their contracts are checked natively
//! (native/src/abe_policy/access_structure/verif_native.rs), labelled bounded.
