//! Contracts on `Dimension` (hierarchies are ordered lowest first; names and attribute parameters concrete:
//! bounded stand-ins on the stated shapes).
use super::*;
use crate::kani_verif::*;

fn any_hint() -> EncryptionHint {
    if kani::any() { EncryptionHint::Hybridized } else { EncryptionHint::Classic }
}
fn attr(id: usize, h: EncryptionHint, enc: bool) -> Attribute {
    Attribute { id, encryption_hint: h, write_status: if enc { AttributeStatus::EncryptDecrypt } else { AttributeStatus::DecryptOnly } }
}
fn s(x: &str) -> String {
    x.to_string()
}
/// hierarchy A < B < C with symbolic parameters
fn hierarchy3(p: &[Attribute; 3]) -> Dimension {
    let mut d = Dict::new();
    d.insert(s("A"), p[0].clone());
    d.insert(s("B"), p[1].clone());
    d.insert(s("C"), p[2].clone());
    Dimension::Hierarchy(d)
}
/// Attribute parameters are concrete (pairwise different ids, mixed hints and status): moving symbolic
/// `usize`s through `Vec<(String, Attribute)>` reallocations exhausts the SAT solver.
fn params3() -> [Attribute; 3] {
    [attr(7, EncryptionHint::Classic, true), attr(2, EncryptionHint::Hybridized, false), attr(5, EncryptionHint::Classic, true)]
}
/// ordered (name, attribute) view of a hierarchy: first four entries
fn hview(d: &Dimension) -> [Option<(String, Attribute)>; 4] {
    match d {
        Dimension::Hierarchy(dict) => {
            let mut it = dict.iter();
            let mut nx = || it.next().map(|(k, v)| (k.clone(), v.clone()));
            let a = nx();
            let b = nx();
            let c = nx();
            let e = nx();
            [a, b, c, e]
        }
        _ => [None, None, None, None],
    }
}

macro_rules! restrict_contract {
    ($name:ident, $target:expr, $n:expr) => {
        kproof! {
            #[kani::unwind(8)]
            fn $name() {
                let p = params3();
                let d = hierarchy3(&p);
                let r = ok_or_forget(d.restrict(s($target)));
                assert!(r.is_some(), "C09: restricting to an existing attribute succeeds");
                let v = hview(&r.unwrap());
                let names = ["A", "B", "C"];
                let mut i = 0;
                while i < 4 {
                    if i < $n {
                        assert!(v[i] == Some((s(names[i]), p[i].clone())), "C01/C02: the restriction of a hierarchy to an attribute is exactly the attributes at or below it, in order, with unchanged id, hint and status");
                    } else {
                        assert!(v[i].is_none(), "C02: no attribute above the named one belongs to the restriction");
                    }
                    i += 1;
                }
            }
        }
    };
}
// (not registered: beyond CBMC's reach, see native hierarchy__order_and_restriction) props=C01,C02 tier=quick class=bounded fn=abe_policy::Dimension::restrict shape="hierarchy A<B<C, restrict to the lowest"
restrict_contract!(dim__restrict_hierarchy_lowest, "A", 1);
// (not registered: beyond CBMC's reach, see native hierarchy__order_and_restriction) props=C01,C02 tier=quick class=bounded fn=abe_policy::Dimension::restrict shape="hierarchy A<B<C, restrict to the middle"
restrict_contract!(dim__restrict_hierarchy_middle, "B", 2);
// (not registered: beyond CBMC's reach, see native hierarchy__order_and_restriction) props=C01,C02 tier=quick class=bounded fn=abe_policy::Dimension::restrict shape="hierarchy A<B<C, restrict to the highest"
restrict_contract!(dim__restrict_hierarchy_highest, "C", 3);

// @obl props=C01,C02,C09 tier=quick class=bounded fn=abe_policy::Dimension::restrict shape="anarchy {X,Y,Z}: restrict to Y; unknown attribute in both kinds"
kproof! {
    #[kani::unwind(8)]
    fn dim__restrict_anarchy_and_unknown() {
        let p = params3();
        let mut m = HashMap::new();
        m.insert(s("X"), p[0].clone());
        m.insert(s("Y"), p[1].clone());
        m.insert(s("Z"), p[2].clone());
        let d = Dimension::Anarchy(m);
        match ok_or_forget(d.restrict(s("Y"))) {
            Some(Dimension::Anarchy(r)) => {
                assert!(r.len() == 1 && r.get(&s("Y")) == Some(&p[1]), "C01/C02: the restriction of an unordered dimension to an attribute is exactly that attribute (never a sibling)");
            }
            _ => assert!(false, "C09: restricting an anarchy to an existing attribute gives an anarchy"),
        }
        assert!(err_kind(d.restrict(s("Q"))) == E_ATTR_NOT_FOUND, "C09: restricting to an unknown attribute fails (AttributeNotFound)");
        let h = hierarchy3(&p);
        assert!(err_kind(h.restrict(s("Q"))) == E_ATTR_NOT_FOUND, "C09: restricting to an unknown attribute fails (AttributeNotFound)");
        std::mem::forget(d);
    }
}

macro_rules! add_after_contract {
    ($name:ident, $after:expr, $pos:expr) => {
        kproof! {
            #[kani::unwind(8)]
            fn $name() {
                let p = params3();
                let mut d = hierarchy3(&p);
                let h = EncryptionHint::Hybridized;
                let id: usize = 9;
                let after: Option<&str> = $after;
                let ok = ok_or_forget(d.add_attribute(s("N"), h, after, id)).is_some();
                assert!(ok, "C09: adding a new name after an existing attribute (or lowest) succeeds");
                let v = hview(&d);
                let newa = Attribute { id, encryption_hint: h, write_status: AttributeStatus::EncryptDecrypt };
                let names = ["A", "B", "C"];
                let mut i = 0; // index in the new order
                let mut j = 0; // index in the old order
                while i < 4 {
                    if i == $pos {
                        assert!(v[i] == Some((s("N"), newa.clone())), "C03: the new attribute takes the requested rank, with the given id and hint, and is born EncryptDecrypt");
                    } else {
                        assert!(v[i] == Some((s(names[j]), p[j].clone())), "C03: the relative order, ids, hints and status of the other attributes are unchanged");
                        j += 1;
                    }
                    i += 1;
                }
                assert!(d.nb_attributes() == 4, "C03: exactly one attribute is added");
            }
        }
    };
}
// (not registered: beyond CBMC's reach, see native hierarchy__order_and_restriction) props=C03,C09 tier=quick class=bounded fn=abe_policy::Dimension::add_attribute shape="hierarchy A<B<C, new attribute lowest (after = None)"
add_after_contract!(dim__add_hierarchy_lowest, None, 0);
// (not registered: beyond CBMC's reach, see native hierarchy__order_and_restriction) props=C03,C09 tier=quick class=bounded fn=abe_policy::Dimension::add_attribute shape="hierarchy A<B<C, new attribute after A"
add_after_contract!(dim__add_hierarchy_after_first, Some("A"), 1);
// (not registered: beyond CBMC's reach, see native hierarchy__order_and_restriction) props=C03,C09 tier=quick class=bounded fn=abe_policy::Dimension::add_attribute shape="hierarchy A<B<C, new attribute after C (highest)"
add_after_contract!(dim__add_hierarchy_after_last, Some("C"), 3);
// (not registered: beyond CBMC's reach, see native hierarchy__order_and_restriction) props=C03,C09 tier=thorough class=bounded fn=abe_policy::Dimension::add_attribute shape="hierarchy A<B<C, new attribute after B"
add_after_contract!(dim__add_hierarchy_after_middle, Some("B"), 2);

// @obl props=C09,C10,C03 tier=quick class=bounded fn=abe_policy::Dimension::add_attribute shape="hierarchy A<B<C: duplicate name, unknown `after`; anarchy: duplicate name"
kproof! {
    #[kani::unwind(8)]
    fn dim__add_refused() {
        let p = params3();
        let mut d = hierarchy3(&p);
        assert!(err_kind(d.add_attribute(s("B"), any_hint(), None, kani::any())) == E_NOT_PERMITTED, "C09: a duplicate name is refused (OperationNotPermitted)");
        assert!(err_kind(d.add_attribute(s("N"), any_hint(), Some("Q"), kani::any())) == E_ATTR_NOT_FOUND, "C09: an unknown `after` attribute is refused (AttributeNotFound)");
        let v = hview(&d);
        assert!(v[0] == Some((s("A"), p[0].clone())) && v[1] == Some((s("B"), p[1].clone())) && v[2] == Some((s("C"), p[2].clone())) && v[3].is_none(), "C10: a refused addition changes nothing");
        let mut m = HashMap::new();
        m.insert(s("X"), p[0].clone());
        let mut a = Dimension::Anarchy(m);
        assert!(err_kind(a.add_attribute(s("X"), any_hint(), None, kani::any())) == E_NOT_PERMITTED, "C09: a duplicate name is refused in an unordered dimension");
        let id: usize = kani::any();
        let h = any_hint();
        assert!(ok_or_forget(a.add_attribute(s("Y"), h, Some("ignored"), id)).is_some(), "C09: `after` is ignored in an unordered dimension");
        assert!(a.nb_attributes() == 2 && a.get_attribute(&s("X")) == Some(&p[0]) && a.get_attribute(&s("Y")) == Some(&Attribute { id, encryption_hint: h, write_status: AttributeStatus::EncryptDecrypt }), "C03: the new attribute is added with the given id and hint; the others are unchanged");
        std::mem::forget(a);
    }
}

// @obl props=C03,C06,C09 tier=quick class=bounded fn=abe_policy::Dimension::remove_attribute shape="hierarchy A<B<C: remove B, disable A, rename C; unknown names"
kproof! {
    #[kani::unwind(8)]
    fn dim__remove_disable_rename() {
        let p = params3();
        let mut d = hierarchy3(&p);
        assert!(ok_or_forget(d.disable_attribute(&s("A"))).is_some(), "C09: disabling an existing attribute succeeds");
        assert!(ok_or_forget(d.rename_attribute(&s("C"), s("Z"))).is_some(), "C09: renaming to an unused name succeeds");
        assert!(ok_or_forget(d.remove_attribute(&s("B"))).is_some(), "C09: removing an existing attribute succeeds");
        let v = hview(&d);
        let mut a2 = p[0].clone();
        a2.write_status = AttributeStatus::DecryptOnly;
        assert!(v[0] == Some((s("A"), a2)), "C06: disabling only flips the status of the named attribute to DecryptOnly (id, hint, rank unchanged)");
        assert!(v[1] == Some((s("Z"), p[2].clone())), "C03: a renamed attribute keeps its id, hint, status and rank; removal keeps the order of the others");
        assert!(v[2].is_none() && d.nb_attributes() == 2, "C03: exactly the named attribute is removed");
        assert!(err_kind(d.remove_attribute(&s("Q"))) == E_ATTR_NOT_FOUND && err_kind(d.disable_attribute(&s("Q"))) == E_ATTR_NOT_FOUND, "C09: unknown attributes are reported (AttributeNotFound)");
        assert!(err_kind(d.rename_attribute(&s("Q"), s("R"))) == E_NOT_PERMITTED && err_kind(d.rename_attribute(&s("A"), s("Z"))) == E_NOT_PERMITTED, "C09: renaming a missing attribute or to a used name is refused");
    }
}
