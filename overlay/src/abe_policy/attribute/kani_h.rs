//! Contracts on the leaf functions of `abe_policy/attribute.rs` (loop-free, full domain: proved).
use super::*;
use crate::kani_verif::*;

fn any_hint() -> EncryptionHint {
    if kani::any() { EncryptionHint::Hybridized } else { EncryptionHint::Classic }
}
fn any_status() -> AttributeStatus {
    if kani::any() { AttributeStatus::EncryptDecrypt } else { AttributeStatus::DecryptOnly }
}

// @obl props=C11 tier=quick class=proved fn=abe_policy::EncryptionHint::bitor shape="all values (loop-free)"
kproof! {
    fn hint__bitor_new_from() {
        let (a, b) = (any_hint(), any_hint());
        let r = a | b;
        assert!(bool::from(r) == (bool::from(a) || bool::from(b)), "C11: the hint of a combination is hybridized iff at least one operand is");
        assert!((r == EncryptionHint::Hybridized) == (a == EncryptionHint::Hybridized || b == EncryptionHint::Hybridized), "C11: disjunction on the enum values");
        let x: bool = kani::any();
        assert!(bool::from(EncryptionHint::new(x)) == x, "C11: new and From<EncryptionHint> for bool are inverse");
        assert!(EncryptionHint::new(bool::from(a)) == a, "C11: new and From<EncryptionHint> for bool are inverse");
        assert!(bool::from(EncryptionHint::Hybridized) && !bool::from(EncryptionHint::Classic), "C11: Hybridized is true");
    }
}

// @obl props=C06 tier=quick class=proved fn=abe_policy::AttributeStatus::bitor shape="all values (loop-free)"
kproof! {
    fn status__bitor_from() {
        let (a, b) = (any_status(), any_status());
        let r = a | b;
        assert!((r == AttributeStatus::DecryptOnly) == (a == AttributeStatus::DecryptOnly || b == AttributeStatus::DecryptOnly), "C06: a combination is decrypt-only iff at least one operand is");
        assert!(bool::from(r) == (bool::from(a) && bool::from(b)), "C06: encryption is allowed iff it is allowed for every operand");
        assert!(bool::from(AttributeStatus::EncryptDecrypt) && !bool::from(AttributeStatus::DecryptOnly), "C06: EncryptDecrypt is true");
    }
}

// (not registered: str::split_once / trim exhaust CBMC; see native parse__* checks) props=C15 fn=abe_policy::QualifiedAttribute::try_from shape="concrete strings incl. spaces, missing/duplicate separator, empty parts, multi-byte characters"
kproof! {
    #[kani::unwind(12)]
    fn qualified_attribute__try_from() {
        let ok = ok_or_forget(QualifiedAttribute::try_from(" Dé :: a b ")).unwrap();
        assert!(ok.dimension.as_bytes() == "Dé".as_bytes() && ok.name.as_bytes() == "a b".as_bytes(), "C15: dimension and name are the parts around '::', trimmed, otherwise preserved exactly (multi-byte included)");
        assert!(err_kind(QualifiedAttribute::try_from("Dept")) == E_INVALID_ATTR, "C15: a missing separator is an error, not a panic");
        assert!(err_kind(QualifiedAttribute::try_from("A::B::C")) == E_INVALID_ATTR, "C15: a second separator is an error");
        assert!(err_kind(QualifiedAttribute::try_from("::B")) == E_INVALID_ATTR && err_kind(QualifiedAttribute::try_from("A::")) == E_INVALID_ATTR, "C15: empty parts are errors");
        std::mem::forget(ok);
    }
}
