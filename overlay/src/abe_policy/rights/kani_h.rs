//! Contracts on `Right::from_point`.  `sort_unstable` on symbolic data is outside CBMC's reach (the
//! branch-free small-sort of std), so the ids are concrete: this obligation is a bounded stand-in.
use super::*;
use crate::kani_verif::*;

// @obl props=C02,C03,C13 tier=quick class=bounded fn=abe_policy::Right::from_point shape="concrete points of 0..3 ids (1- and 2-byte LEB128 encodings, both orders)" loops="volatile_set=20;zeroize=20"
kproof! {
    #[kani::unwind(12)]
    fn right__from_point_canonical() {
        let rab = ok_or_forget(Right::from_point(vec![300, 5])).unwrap();
        let rba = ok_or_forget(Right::from_point(vec![5, 300])).unwrap();
        assert!(rab == rba, "C02/C03: a right does not depend on the order of the ids of its point");
        assert!(rab.0.len() == 3 && rab.0[0] == 5 && rab.0[1] == 0xAC && rab.0[2] == 0x02, "C13: a right is the concatenation of the LEB128 encodings of its sorted ids");
        let ra = ok_or_forget(Right::from_point(vec![5])).unwrap();
        let rb = ok_or_forget(Right::from_point(vec![6])).unwrap();
        assert!(ra != rb && ra != rab, "C02/C03: different points have different rights");
        let r3 = ok_or_forget(Right::from_point(vec![7, 1, 3])).unwrap();
        assert!(r3.0.len() == 3 && r3.0[0] == 1 && r3.0[1] == 3 && r3.0[2] == 7, "C02: ids are sorted");
        let r0 = ok_or_forget(Right::from_point(vec![])).unwrap();
        assert!(r0.0.is_empty(), "C01: the empty point (broadcast) is the empty right");
        std::mem::forget((rab, rba, ra, rb, r0, r3));
    }
}
