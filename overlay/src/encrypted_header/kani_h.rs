//! (no Kani obligation: the serialization round-trip of `EncryptedHeader` did not finish in 15 min; it is checked natively
//! by header__roundtrip_authentication_and_secret and serialization__length_write_read_roundtrip)
