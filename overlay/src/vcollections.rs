//! Bounded, heap-free reference implementations of the std containers used by the crate,
//! with the subset of the std API the crate calls.  Compiled only under cfg(kani), selected
//! by import rewriting (tools/overlay.py).
//!
//! * `HashMap<K,V>` / `HashSet<T>`: insertion-ordered finite map / set stored inline in a
//!   fixed array of `MAP_CAP` slots;
//! * `LinkedList<T>`: sequence stored inline in a fixed array of `LIST_CAP` slots (index 0 = front).
//!
//! Exceeding a capacity is an explicit `kani` bound failure (message "BOUND: ..."), reported
//! as inconclusive by the driver, never as a violation.
//!
//! Assumption replaced: the std containers implement the finite map / set / sequence
//! contract; no behaviour may depend on hash iteration order (here: insertion order).
pub use std::collections::VecDeque;

pub const MAP_CAP: usize = 6;
pub const LIST_CAP: usize = 4;

pub mod linked_list {
    use super::LIST_CAP;

    pub struct LinkedList<T> {
        pub(crate) items: [Option<T>; LIST_CAP],
        pub(crate) len: usize,
    }
    impl<T> Default for LinkedList<T> {
        fn default() -> Self {
            Self::new()
        }
    }
    impl<T: Clone> Clone for LinkedList<T> {
        fn clone(&self) -> Self {
            let mut l = Self::new();
            let mut i = 0;
            while i < self.len {
                l.items[i] = self.items[i].clone();
                i += 1;
            }
            l.len = self.len;
            l
        }
    }
    impl<T: std::fmt::Debug> std::fmt::Debug for LinkedList<T> {
        fn fmt(&self, f: &mut std::fmt::Formatter<'_>) -> std::fmt::Result {
            f.write_str("LinkedList")
        }
    }
    impl<T: PartialEq> PartialEq for LinkedList<T> {
        fn eq(&self, other: &Self) -> bool {
            if self.len != other.len {
                return false;
            }
            let mut i = 0;
            while i < self.len {
                if self.items[i] != other.items[i] {
                    return false;
                }
                i += 1;
            }
            true
        }
    }
    impl<T: Eq> Eq for LinkedList<T> {}
    impl<T: std::hash::Hash> std::hash::Hash for LinkedList<T> {
        fn hash<H: std::hash::Hasher>(&self, state: &mut H) {
            self.len.hash(state);
            let mut i = 0;
            while i < self.len {
                self.items[i].hash(state);
                i += 1;
            }
        }
    }
    pub struct Iter<'a, T> {
        list: &'a LinkedList<T>,
        i: usize,
        end: usize,
    }
    impl<'a, T> Iterator for Iter<'a, T> {
        type Item = &'a T;
        fn next(&mut self) -> Option<&'a T> {
            if self.i < self.end {
                let r = self.list.items[self.i].as_ref();
                self.i += 1;
                r
            } else {
                None
            }
        }
        fn size_hint(&self) -> (usize, Option<usize>) {
            (self.end - self.i, Some(self.end - self.i))
        }
    }
    impl<'a, T> DoubleEndedIterator for Iter<'a, T> {
        fn next_back(&mut self) -> Option<&'a T> {
            if self.i < self.end {
                self.end -= 1;
                self.list.items[self.end].as_ref()
            } else {
                None
            }
        }
    }
    impl<'a, T> ExactSizeIterator for Iter<'a, T> {}
    impl<'a, T> Clone for Iter<'a, T> {
        fn clone(&self) -> Self {
            Self { list: self.list, i: self.i, end: self.end }
        }
    }
    pub struct IntoIter<T> {
        items: [Option<T>; LIST_CAP],
        i: usize,
        end: usize,
    }
    impl<T> Iterator for IntoIter<T> {
        type Item = T;
        fn next(&mut self) -> Option<T> {
            if self.i < self.end {
                let r = self.items[self.i].take();
                self.i += 1;
                r
            } else {
                None
            }
        }
        fn size_hint(&self) -> (usize, Option<usize>) {
            (self.end - self.i, Some(self.end - self.i))
        }
    }
    impl<T> DoubleEndedIterator for IntoIter<T> {
        fn next_back(&mut self) -> Option<T> {
            if self.i < self.end {
                self.end -= 1;
                self.items[self.end].take()
            } else {
                None
            }
        }
    }
    impl<T> LinkedList<T> {
        pub fn new() -> Self {
            Self { items: [const { None }; LIST_CAP], len: 0 }
        }
        pub fn len(&self) -> usize {
            self.len
        }
        pub fn is_empty(&self) -> bool {
            self.len == 0
        }
        pub fn clear(&mut self) {
            let mut i = 0;
            while i < LIST_CAP {
                self.items[i] = None;
                i += 1;
            }
            self.len = 0;
        }
        pub fn push_front(&mut self, x: T) {
            assert!(self.len < LIST_CAP, "BOUND: list capacity exceeded");
            let mut i = self.len;
            while i > 0 {
                self.items[i] = self.items[i - 1].take();
                i -= 1;
            }
            self.items[0] = Some(x);
            self.len += 1;
        }
        pub fn push_back(&mut self, x: T) {
            assert!(self.len < LIST_CAP, "BOUND: list capacity exceeded");
            self.items[self.len] = Some(x);
            self.len += 1;
        }
        pub fn pop_front(&mut self) -> Option<T> {
            if self.len == 0 {
                return None;
            }
            let r = self.items[0].take();
            let mut i = 1;
            while i < self.len {
                self.items[i - 1] = self.items[i].take();
                i += 1;
            }
            self.len -= 1;
            r
        }
        pub fn pop_back(&mut self) -> Option<T> {
            if self.len == 0 {
                return None;
            }
            self.len -= 1;
            self.items[self.len].take()
        }
        pub fn front(&self) -> Option<&T> {
            if self.len == 0 { None } else { self.items[0].as_ref() }
        }
        pub fn front_mut(&mut self) -> Option<&mut T> {
            if self.len == 0 { None } else { self.items[0].as_mut() }
        }
        pub fn back(&self) -> Option<&T> {
            if self.len == 0 { None } else { self.items[self.len - 1].as_ref() }
        }
        pub fn back_mut(&mut self) -> Option<&mut T> {
            if self.len == 0 { None } else { self.items[self.len - 1].as_mut() }
        }
        pub fn iter(&self) -> Iter<'_, T> {
            Iter { list: self, i: 0, end: self.len }
        }
        /// std semantics: returns everything from index `at` on; panics if `at > len`.
        pub fn split_off(&mut self, at: usize) -> Self {
            assert!(at <= self.len, "Cannot split off at a nonexistent index");
            let mut other = Self::new();
            let mut i = at;
            while i < self.len {
                other.items[i - at] = self.items[i].take();
                i += 1;
            }
            other.len = self.len - at;
            self.len = at;
            other
        }
    }
    impl<T> IntoIterator for LinkedList<T> {
        type Item = T;
        type IntoIter = IntoIter<T>;
        fn into_iter(self) -> IntoIter<T> {
            let end = self.len;
            IntoIter { items: self.items, i: 0, end }
        }
    }
    impl<'a, T> IntoIterator for &'a LinkedList<T> {
        type Item = &'a T;
        type IntoIter = Iter<'a, T>;
        fn into_iter(self) -> Iter<'a, T> {
            self.iter()
        }
    }
    impl<T> FromIterator<T> for LinkedList<T> {
        fn from_iter<I: IntoIterator<Item = T>>(iter: I) -> Self {
            let mut l = Self::new();
            for x in iter {
                l.push_back(x);
            }
            l
        }
    }
    impl<T, const N: usize> From<[T; N]> for LinkedList<T> {
        fn from(arr: [T; N]) -> Self {
            arr.into_iter().collect()
        }
    }
}
pub use linked_list::LinkedList;

pub mod hash_map {
    use super::MAP_CAP;
    use std::borrow::Borrow;

    pub struct HashMap<K, V> {
        pub(crate) items: [Option<(K, V)>; MAP_CAP],
        pub(crate) len: usize,
    }

    impl<K, V> Default for HashMap<K, V> {
        fn default() -> Self {
            Self::new()
        }
    }
    impl<K: Clone, V: Clone> Clone for HashMap<K, V> {
        fn clone(&self) -> Self {
            let mut m = Self::new();
            let mut i = 0;
            while i < self.len {
                m.items[i] = self.items[i].clone();
                i += 1;
            }
            m.len = self.len;
            m
        }
    }
    impl<K, V> std::fmt::Debug for HashMap<K, V> {
        fn fmt(&self, f: &mut std::fmt::Formatter<'_>) -> std::fmt::Result {
            f.write_str("HashMap")
        }
    }
    impl<K: Eq, V: PartialEq> PartialEq for HashMap<K, V> {
        fn eq(&self, other: &Self) -> bool {
            if self.len != other.len {
                return false;
            }
            let mut i = 0;
            while i < self.len {
                let (k, v) = self.items[i].as_ref().unwrap();
                match other.get(k) {
                    Some(w) => {
                        if v != w {
                            return false;
                        }
                    }
                    None => return false,
                }
                i += 1;
            }
            true
        }
    }
    impl<K: Eq, V: Eq> Eq for HashMap<K, V> {}

    pub enum Entry<'a, K, V> {
        Occupied(OccupiedEntry<'a, K, V>),
        Vacant(VacantEntry<'a, K, V>),
    }
    // both payloads share one field layout (see DESIGN §2)
    pub struct OccupiedEntry<'a, K, V> {
        map: &'a mut HashMap<K, V>,
        idx: usize,
        #[allow(dead_code)]
        key: K,
    }
    pub struct VacantEntry<'a, K, V> {
        map: &'a mut HashMap<K, V>,
        #[allow(dead_code)]
        idx: usize,
        key: K,
    }
    impl<'a, K, V> OccupiedEntry<'a, K, V> {
        pub fn key(&self) -> &K {
            &self.map.items[self.idx].as_ref().unwrap().0
        }
        pub fn get(&self) -> &V {
            &self.map.items[self.idx].as_ref().unwrap().1
        }
        pub fn get_mut(&mut self) -> &mut V {
            &mut self.map.items[self.idx].as_mut().unwrap().1
        }
        pub fn into_mut(self) -> &'a mut V {
            &mut self.map.items[self.idx].as_mut().unwrap().1
        }
    }
    impl<'a, K, V> VacantEntry<'a, K, V> {
        pub fn key(&self) -> &K {
            &self.key
        }
        pub fn insert(self, value: V) -> &'a mut V {
            assert!(self.map.len < MAP_CAP, "BOUND: map capacity exceeded");
            let n = self.map.len;
            self.map.items[n] = Some((self.key, value));
            self.map.len = n + 1;
            &mut self.map.items[n].as_mut().unwrap().1
        }
    }

    pub struct Iter<'a, K, V> {
        map: &'a HashMap<K, V>,
        i: usize,
    }
    impl<'a, K, V> Iterator for Iter<'a, K, V> {
        type Item = (&'a K, &'a V);
        fn next(&mut self) -> Option<(&'a K, &'a V)> {
            if self.i < self.map.len {
                let r = self.map.items[self.i].as_ref().map(|kv| (&kv.0, &kv.1));
                self.i += 1;
                r
            } else {
                None
            }
        }
        fn size_hint(&self) -> (usize, Option<usize>) {
            (self.map.len - self.i, Some(self.map.len - self.i))
        }
    }
    pub struct IntoIter<K, V> {
        items: [Option<(K, V)>; MAP_CAP],
        i: usize,
        len: usize,
    }
    impl<K, V> Iterator for IntoIter<K, V> {
        type Item = (K, V);
        fn next(&mut self) -> Option<(K, V)> {
            if self.i < self.len {
                let r = self.items[self.i].take();
                self.i += 1;
                r
            } else {
                None
            }
        }
        fn size_hint(&self) -> (usize, Option<usize>) {
            (self.len - self.i, Some(self.len - self.i))
        }
    }

    impl<K, V> HashMap<K, V> {
        pub fn new() -> Self {
            Self { items: [const { None }; MAP_CAP], len: 0 }
        }
        /// the request is recorded for the allocation contract of C14
        pub fn with_capacity(cap: usize) -> Self {
            crate::kani_verif::alloc_log::request(cap);
            Self::new()
        }
        pub fn len(&self) -> usize {
            self.len
        }
        pub fn is_empty(&self) -> bool {
            self.len == 0
        }
        pub fn iter(&self) -> Iter<'_, K, V> {
            Iter { map: self, i: 0 }
        }
        pub fn iter_mut(&mut self) -> impl Iterator<Item = (&K, &mut V)> {
            let n = self.len;
            self.items[..n].iter_mut().map(|o| {
                let kv = o.as_mut().unwrap();
                (&kv.0, &mut kv.1)
            })
        }
        pub fn keys(&self) -> impl Iterator<Item = &K> {
            self.iter().map(|(k, _)| k)
        }
        pub fn values(&self) -> impl Iterator<Item = &V> {
            self.iter().map(|(_, v)| v)
        }
        pub fn values_mut(&mut self) -> impl Iterator<Item = &mut V> {
            self.iter_mut().map(|(_, v)| v)
        }
        fn remove_at(&mut self, i: usize) -> (K, V) {
            let r = self.items[i].take().unwrap();
            let mut j = i + 1;
            while j < self.len {
                self.items[j - 1] = self.items[j].take();
                j += 1;
            }
            self.len -= 1;
            r
        }
        pub fn retain(&mut self, mut f: impl FnMut(&K, &mut V) -> bool) {
            let mut i = 0;
            while i < self.len {
                let keep = {
                    let kv = self.items[i].as_mut().unwrap();
                    f(&kv.0, &mut kv.1)
                };
                if keep {
                    i += 1;
                } else {
                    let _ = self.remove_at(i);
                }
            }
        }
    }
    impl<K: Eq, V> HashMap<K, V> {
        fn pos<Q: ?Sized + Eq>(&self, key: &Q) -> Option<usize>
        where
            K: Borrow<Q>,
        {
            let mut i = 0;
            while i < self.len {
                if self.items[i].as_ref().unwrap().0.borrow() == key {
                    return Some(i);
                }
                i += 1;
            }
            None
        }
        pub fn get<Q: ?Sized + Eq>(&self, key: &Q) -> Option<&V>
        where
            K: Borrow<Q>,
        {
            match self.pos(key) {
                Some(i) => Some(&self.items[i].as_ref().unwrap().1),
                None => None,
            }
        }
        pub fn get_mut<Q: ?Sized + Eq>(&mut self, key: &Q) -> Option<&mut V>
        where
            K: Borrow<Q>,
        {
            match self.pos(key) {
                Some(i) => Some(&mut self.items[i].as_mut().unwrap().1),
                None => None,
            }
        }
        pub fn contains_key<Q: ?Sized + Eq>(&self, key: &Q) -> bool
        where
            K: Borrow<Q>,
        {
            self.pos(key).is_some()
        }
        pub fn insert(&mut self, key: K, value: V) -> Option<V> {
            match self.pos(&key) {
                Some(i) => Some(std::mem::replace(&mut self.items[i].as_mut().unwrap().1, value)),
                None => {
                    assert!(self.len < MAP_CAP, "BOUND: map capacity exceeded");
                    self.items[self.len] = Some((key, value));
                    self.len += 1;
                    None
                }
            }
        }
        pub fn remove<Q: ?Sized + Eq>(&mut self, key: &Q) -> Option<V>
        where
            K: Borrow<Q>,
        {
            match self.pos(key) {
                Some(i) => Some(self.remove_at(i).1),
                None => None,
            }
        }
        pub fn entry(&mut self, key: K) -> Entry<'_, K, V> {
            match self.pos(&key) {
                Some(idx) => Entry::Occupied(OccupiedEntry { map: self, idx, key }),
                None => Entry::Vacant(VacantEntry { map: self, idx: 0, key }),
            }
        }
    }
    impl<K: Eq, V> FromIterator<(K, V)> for HashMap<K, V> {
        fn from_iter<I: IntoIterator<Item = (K, V)>>(iter: I) -> Self {
            let mut m = Self::new();
            for (k, v) in iter {
                m.insert(k, v);
            }
            m
        }
    }
    impl<K: Eq, V, const N: usize> From<[(K, V); N]> for HashMap<K, V> {
        fn from(arr: [(K, V); N]) -> Self {
            arr.into_iter().collect()
        }
    }
    impl<K, V> IntoIterator for HashMap<K, V> {
        type Item = (K, V);
        type IntoIter = IntoIter<K, V>;
        fn into_iter(self) -> IntoIter<K, V> {
            let len = self.len;
            IntoIter { items: self.items, i: 0, len }
        }
    }
    impl<'a, K, V> IntoIterator for &'a HashMap<K, V> {
        type Item = (&'a K, &'a V);
        type IntoIter = Iter<'a, K, V>;
        fn into_iter(self) -> Iter<'a, K, V> {
            self.iter()
        }
    }
    impl<K: serde::Serialize, V: serde::Serialize> serde::Serialize for HashMap<K, V> {
        fn serialize<S: serde::Serializer>(&self, s: S) -> Result<S::Ok, S::Error> {
            s.collect_map(self.iter())
        }
    }
    impl<'de, K: Eq + serde::Deserialize<'de>, V: serde::Deserialize<'de>> serde::Deserialize<'de> for HashMap<K, V> {
        fn deserialize<D: serde::Deserializer<'de>>(d: D) -> Result<Self, D::Error> {
            let v: Vec<(K, V)> = serde::Deserialize::deserialize(d)?;
            Ok(v.into_iter().collect())
        }
    }
}
pub use hash_map::HashMap;

pub struct HashSet<T> {
    pub(crate) items: [Option<T>; MAP_CAP],
    pub(crate) len: usize,
}
impl<T> Default for HashSet<T> {
    fn default() -> Self {
        Self::new()
    }
}
impl<T> std::fmt::Debug for HashSet<T> {
    fn fmt(&self, f: &mut std::fmt::Formatter<'_>) -> std::fmt::Result {
        f.write_str("HashSet")
    }
}
impl<T: Clone> Clone for HashSet<T> {
    fn clone(&self) -> Self {
        let mut s = Self::new();
        let mut i = 0;
        while i < self.len {
            s.items[i] = self.items[i].clone();
            i += 1;
        }
        s.len = self.len;
        s
    }
}
impl<T: Eq> PartialEq for HashSet<T> {
    fn eq(&self, other: &Self) -> bool {
        if self.len != other.len {
            return false;
        }
        let mut i = 0;
        while i < self.len {
            if !other.contains(self.items[i].as_ref().unwrap()) {
                return false;
            }
            i += 1;
        }
        true
    }
}
impl<T: Eq> Eq for HashSet<T> {}
pub struct SetIter<'a, T> {
    set: &'a HashSet<T>,
    i: usize,
}
impl<'a, T> Iterator for SetIter<'a, T> {
    type Item = &'a T;
    fn next(&mut self) -> Option<&'a T> {
        if self.i < self.set.len {
            let r = self.set.items[self.i].as_ref();
            self.i += 1;
            r
        } else {
            None
        }
    }
    fn size_hint(&self) -> (usize, Option<usize>) {
        (self.set.len - self.i, Some(self.set.len - self.i))
    }
}
pub struct SetIntoIter<T> {
    items: [Option<T>; MAP_CAP],
    i: usize,
    len: usize,
}
impl<T> Iterator for SetIntoIter<T> {
    type Item = T;
    fn next(&mut self) -> Option<T> {
        if self.i < self.len {
            let r = self.items[self.i].take();
            self.i += 1;
            r
        } else {
            None
        }
    }
    fn size_hint(&self) -> (usize, Option<usize>) {
        (self.len - self.i, Some(self.len - self.i))
    }
}
impl<T> HashSet<T> {
    pub fn new() -> Self {
        Self { items: [const { None }; MAP_CAP], len: 0 }
    }
    pub fn with_capacity(cap: usize) -> Self {
        crate::kani_verif::alloc_log::request(cap);
        Self::new()
    }
    pub fn len(&self) -> usize {
        self.len
    }
    pub fn is_empty(&self) -> bool {
        self.len == 0
    }
    pub fn iter(&self) -> SetIter<'_, T> {
        SetIter { set: self, i: 0 }
    }
}
impl<T: Eq> HashSet<T> {
    fn pos(&self, x: &T) -> Option<usize> {
        let mut i = 0;
        while i < self.len {
            if self.items[i].as_ref().unwrap() == x {
                return Some(i);
            }
            i += 1;
        }
        None
    }
    pub fn contains(&self, x: &T) -> bool {
        self.pos(x).is_some()
    }
    pub fn insert(&mut self, x: T) -> bool {
        if self.contains(&x) {
            false
        } else {
            assert!(self.len < MAP_CAP, "BOUND: set capacity exceeded");
            self.items[self.len] = Some(x);
            self.len += 1;
            true
        }
    }
    pub fn remove(&mut self, x: &T) -> bool {
        match self.pos(x) {
            Some(i) => {
                self.items[i] = None;
                let mut j = i + 1;
                while j < self.len {
                    self.items[j - 1] = self.items[j].take();
                    j += 1;
                }
                self.len -= 1;
                true
            }
            None => false,
        }
    }
}
impl<T: Eq> FromIterator<T> for HashSet<T> {
    fn from_iter<I: IntoIterator<Item = T>>(iter: I) -> Self {
        let mut s = Self::new();
        for x in iter {
            s.insert(x);
        }
        s
    }
}
impl<T: Eq, const N: usize> From<[T; N]> for HashSet<T> {
    fn from(arr: [T; N]) -> Self {
        arr.into_iter().collect()
    }
}
impl<T> IntoIterator for HashSet<T> {
    type Item = T;
    type IntoIter = SetIntoIter<T>;
    fn into_iter(self) -> SetIntoIter<T> {
        let len = self.len;
        SetIntoIter { items: self.items, i: 0, len }
    }
}
impl<'a, T> IntoIterator for &'a HashSet<T> {
    type Item = &'a T;
    type IntoIter = SetIter<'a, T>;
    fn into_iter(self) -> SetIter<'a, T> {
        self.iter()
    }
}
