//! List-backed finite map / set with the subset of the std API used by the crate.
//! Assumption replaced: std::collections::{HashMap, HashSet} implement the finite map / set contract.
pub use std::collections::{linked_list, LinkedList, VecDeque};

pub mod hash_map {
    use std::borrow::Borrow;

    #[derive(Clone, Debug)]
    pub struct HashMap<K, V> {
        pub(crate) items: Vec<(K, V)>,
    }

    impl<K, V> Default for HashMap<K, V> {
        fn default() -> Self {
            Self { items: Vec::new() }
        }
    }

    impl<K: Eq, V: PartialEq> PartialEq for HashMap<K, V> {
        fn eq(&self, other: &Self) -> bool {
            self.items.len() == other.items.len()
                && self.items.iter().all(|(k, v)| other.get(k).map_or(false, |w| v == w))
        }
    }
    impl<K: Eq, V: Eq> Eq for HashMap<K, V> {}

    pub enum Entry<'a, K, V> {
        Occupied(OccupiedEntry<'a, K, V>),
        Vacant(VacantEntry<'a, K, V>),
    }
    pub struct OccupiedEntry<'a, K, V> {
        map: &'a mut HashMap<K, V>,
        idx: usize,
        #[allow(dead_code)]
        key: K,
    }
    pub struct VacantEntry<'a, K, V> {
        map: &'a mut HashMap<K, V>,
        #[allow(dead_code)]
        idx: usize,
        key: K,
    }
    impl<'a, K, V> OccupiedEntry<'a, K, V> {
        pub fn key(&self) -> &K {
            &self.map.items[self.idx].0
        }
        pub fn get(&self) -> &V {
            &self.map.items[self.idx].1
        }
        pub fn get_mut(&mut self) -> &mut V {
            &mut self.map.items[self.idx].1
        }
        pub fn into_mut(self) -> &'a mut V {
            &mut self.map.items[self.idx].1
        }
    }
    impl<'a, K, V> VacantEntry<'a, K, V> {
        pub fn key(&self) -> &K {
            &self.key
        }
        pub fn insert(self, value: V) -> &'a mut V {
            self.map.items.push((self.key, value));
            let n = self.map.items.len();
            &mut self.map.items[n - 1].1
        }
    }

    impl<K, V> HashMap<K, V> {
        pub fn new() -> Self {
            Self { items: Vec::new() }
        }
        pub fn with_capacity(cap: usize) -> Self {
            Self { items: Vec::with_capacity(cap) }
        }
        pub fn len(&self) -> usize {
            self.items.len()
        }
        pub fn is_empty(&self) -> bool {
            self.items.is_empty()
        }
        pub fn iter(&self) -> impl Iterator<Item = (&K, &V)> {
            self.items.iter().map(|(k, v)| (k, v))
        }
        pub fn iter_mut(&mut self) -> impl Iterator<Item = (&K, &mut V)> {
            self.items.iter_mut().map(|(k, v)| (&*k, v))
        }
        pub fn keys(&self) -> impl Iterator<Item = &K> {
            self.items.iter().map(|(k, _)| k)
        }
        pub fn values(&self) -> impl Iterator<Item = &V> {
            self.items.iter().map(|(_, v)| v)
        }
        pub fn retain(&mut self, mut f: impl FnMut(&K, &mut V) -> bool) {
            self.items.retain_mut(|(k, v)| f(k, v));
        }
    }
    impl<K: Eq, V> HashMap<K, V> {
        fn pos<Q: ?Sized + Eq>(&self, key: &Q) -> Option<usize>
        where
            K: Borrow<Q>,
        {
            self.items.iter().position(|(k, _)| k.borrow() == key)
        }
        pub fn get<Q: ?Sized + Eq>(&self, key: &Q) -> Option<&V>
        where
            K: Borrow<Q>,
        {
            self.pos(key).map(|i| &self.items[i].1)
        }
        pub fn get_mut<Q: ?Sized + Eq>(&mut self, key: &Q) -> Option<&mut V>
        where
            K: Borrow<Q>,
        {
            self.pos(key).map(|i| &mut self.items[i].1)
        }
        pub fn contains_key<Q: ?Sized + Eq>(&self, key: &Q) -> bool
        where
            K: Borrow<Q>,
        {
            self.pos(key).is_some()
        }
        pub fn insert(&mut self, key: K, value: V) -> Option<V> {
            match self.pos(&key) {
                Some(i) => Some(std::mem::replace(&mut self.items[i].1, value)),
                None => {
                    self.items.push((key, value));
                    None
                }
            }
        }
        pub fn remove<Q: ?Sized + Eq>(&mut self, key: &Q) -> Option<V>
        where
            K: Borrow<Q>,
        {
            self.pos(key).map(|i| self.items.remove(i).1)
        }
        pub fn entry(&mut self, key: K) -> Entry<'_, K, V> {
            match self.pos(&key) {
                Some(idx) => Entry::Occupied(OccupiedEntry { map: self, idx, key }),
                None => Entry::Vacant(VacantEntry { map: self, idx: 0, key }),
            }
        }
    }
    impl<K: Eq, V> FromIterator<(K, V)> for HashMap<K, V> {
        fn from_iter<I: IntoIterator<Item = (K, V)>>(iter: I) -> Self {
            let mut m = Self::new();
            for (k, v) in iter {
                m.insert(k, v);
            }
            m
        }
    }
    impl<K: Eq, V, const N: usize> From<[(K, V); N]> for HashMap<K, V> {
        fn from(arr: [(K, V); N]) -> Self {
            arr.into_iter().collect()
        }
    }
    impl<K, V> IntoIterator for HashMap<K, V> {
        type Item = (K, V);
        type IntoIter = std::vec::IntoIter<(K, V)>;
        fn into_iter(self) -> Self::IntoIter {
            self.items.into_iter()
        }
    }
    impl<'a, K, V> IntoIterator for &'a HashMap<K, V> {
        type Item = (&'a K, &'a V);
        type IntoIter = std::iter::Map<std::slice::Iter<'a, (K, V)>, fn(&'a (K, V)) -> (&'a K, &'a V)>;
        fn into_iter(self) -> Self::IntoIter {
            fn f<'a, K, V>(kv: &'a (K, V)) -> (&'a K, &'a V) {
                (&kv.0, &kv.1)
            }
            self.items.iter().map(f as fn(&'a (K, V)) -> (&'a K, &'a V))
        }
    }
    impl<K: serde::Serialize, V: serde::Serialize> serde::Serialize for HashMap<K, V> {
        fn serialize<S: serde::Serializer>(&self, s: S) -> Result<S::Ok, S::Error> {
            s.collect_map(self.items.iter().map(|(k, v)| (k, v)))
        }
    }
    impl<'de, K: Eq + serde::Deserialize<'de>, V: serde::Deserialize<'de>> serde::Deserialize<'de>
        for HashMap<K, V>
    {
        fn deserialize<D: serde::Deserializer<'de>>(d: D) -> Result<Self, D::Error> {
            let v: Vec<(K, V)> = serde::Deserialize::deserialize(d)?;
            Ok(v.into_iter().collect())
        }
    }
}

pub use hash_map::HashMap;

#[derive(Clone, Debug)]
pub struct HashSet<T> {
    items: Vec<T>,
}
impl<T> Default for HashSet<T> {
    fn default() -> Self {
        Self { items: Vec::new() }
    }
}
impl<T: Eq> PartialEq for HashSet<T> {
    fn eq(&self, other: &Self) -> bool {
        self.items.len() == other.items.len() && self.items.iter().all(|x| other.contains(x))
    }
}
impl<T: Eq> Eq for HashSet<T> {}
impl<T> HashSet<T> {
    pub fn new() -> Self {
        Self { items: Vec::new() }
    }
    pub fn with_capacity(cap: usize) -> Self {
        Self { items: Vec::with_capacity(cap) }
    }
    pub fn len(&self) -> usize {
        self.items.len()
    }
    pub fn is_empty(&self) -> bool {
        self.items.is_empty()
    }
    pub fn iter(&self) -> std::slice::Iter<'_, T> {
        self.items.iter()
    }
}
impl<T: Eq> HashSet<T> {
    pub fn contains(&self, x: &T) -> bool {
        self.items.iter().any(|y| y == x)
    }
    pub fn insert(&mut self, x: T) -> bool {
        if self.contains(&x) {
            false
        } else {
            self.items.push(x);
            true
        }
    }
    pub fn remove(&mut self, x: &T) -> bool {
        match self.items.iter().position(|y| y == x) {
            Some(i) => {
                self.items.remove(i);
                true
            }
            None => false,
        }
    }
}
impl<T: Eq> FromIterator<T> for HashSet<T> {
    fn from_iter<I: IntoIterator<Item = T>>(iter: I) -> Self {
        let mut s = Self::new();
        for x in iter {
            s.insert(x);
        }
        s
    }
}
impl<T: Eq, const N: usize> From<[T; N]> for HashSet<T> {
    fn from(arr: [T; N]) -> Self {
        arr.into_iter().collect()
    }
}
impl<T> IntoIterator for HashSet<T> {
    type Item = T;
    type IntoIter = std::vec::IntoIter<T>;
    fn into_iter(self) -> Self::IntoIter {
        self.items.into_iter()
    }
}
impl<'a, T> IntoIterator for &'a HashSet<T> {
    type Item = &'a T;
    type IntoIter = std::slice::Iter<'a, T>;
    fn into_iter(self) -> Self::IntoIter {
        self.items.iter()
    }
}
