//! Contract on `ser::read_vec` (the length-prefixed vector reader used for rights, names and header metadata):
//! for EVERY input of up to 12 bytes (all LEB128 length prefixes up to 2^64-1 included) it returns without panic, never
//! allocates more than the remaining input, and on success returns exactly the announced bytes.
use super::*;
use crate::kani_verif::*;

// @obl props=C14,C13 tier=quick class=bounded fn=ser::read_vec shape="all byte strings of length 0..=12 (symbolic bytes and length): every LEB128 length prefix, truncations included"
kproof! {
    #[kani::unwind(14)]
    fn ser__read_vec_never_over_allocates() {
        let buf: [u8; 12] = kani::any();
        let n: usize = kani::any();
        kani::assume(n <= 12);
        let mut de = Deserializer::new(&buf[..n]);
        let r = read_vec(&mut de);
        match r {
            Ok(v) => {
                assert!(v.len() <= n, "C14: a vector read from untrusted bytes is never longer than the input");
                assert!(de.value().len() + v.len() < n || v.is_empty() && de.value().len() < n || n == 0, "C13: the prefix and exactly the announced bytes are consumed");
                std::mem::forget(v);
            }
            Err(e) => std::mem::forget(e),
        }
    }
}
