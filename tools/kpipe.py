"""Own Kani back-end pipeline: `cargo kani --only-codegen` once, then per harness the exact
goto-cc / goto-instrument / cbmc steps kani-driver runs (taken from `cargo kani -v`), each
harness in its own process with its own time and memory cap, CBMC's JSON parsed here.

One step is added (DESIGN §3.3): right after `--add-library`, the bodies of
`drop_glue::<cosmian_crypto_core::CryptoCoreError>` and `drop_glue::<std::io::Error>` are
replaced by no-ops (goto-instrument --remove-function-body / --generate-function-body
... nothing).  Dropping such a value only frees memory; no harness ever creates an
io::Error; the recursive, dyn-dispatching drop glue is intractable for CBMC wherever it
cannot resolve an error's variant statically.
"""
import concurrent.futures
import glob
import json
import os
import re
import resource
import subprocess
import time

KANI_HOME = os.path.expanduser("~/.kani/kani-0.68.0")
KBIN = os.path.join(KANI_HOME, "bin")
KANI_LIB_C = os.path.join(KANI_HOME, "library", "kani", "kani_lib.c")
CBMC_FLAGS = ["--no-malloc-may-fail", "--no-undefined-shift-check", "--no-signed-overflow-check", "--no-bounds-check",
              "--no-pointer-check", "--nan-check", "--no-self-loops-to-assumptions", "--no-pointer-primitive-check",
              "--object-bits", "16", "--unwinding-assertions", "--sat-solver", "cadical", "--slice-formula"]
NOOP_DROP = r"^std::ptr::drop_glue::<(cosmian_crypto_core::CryptoCoreError|std::io::Error)> /\* "


def _limits(mem_gb):
    def f():
        b = mem_gb * 1024 ** 3
        resource.setrlimit(resource.RLIMIT_AS, (b, b))
    return f


def _run(cmd, mem_gb, timeout, stdout=None):
    return subprocess.run(cmd, stdout=stdout or subprocess.DEVNULL, stderr=subprocess.STDOUT, timeout=timeout, preexec_fn=_limits(mem_gb))


def codegen(repo_dir, target_dir, harnesses, kani_flags, env, logfile, timeout=3600):
    cmd = ["cargo", "kani"] + kani_flags + ["--target-dir", target_dir, "--only-codegen", "--exact"]
    for h in harnesses:
        cmd += ["--harness", h]
    t0 = time.time()
    with open(logfile, "w") as fh:
        try:
            p = subprocess.run(cmd, cwd=repo_dir, env=env, stdout=fh, stderr=subprocess.STDOUT, timeout=timeout)
            rc = p.returncode
        except subprocess.TimeoutExpired:
            rc = -9
    meta = {}
    # the metadata file written by this build is the newest one
    cands = sorted(glob.glob(os.path.join(target_dir, "kani", "*", "debug", "build", "cosmian_cover_crypt", "*", "out", "*.kani-metadata.json")), key=os.path.getmtime)
    for c in cands[-3:]:
        if os.path.getmtime(c) < t0 - 5:
            continue
        try:
            d = json.load(open(c))
        except Exception:
            continue
        for h in d.get("proof_harnesses", []):
            if os.path.exists(h["goto_file"]) and os.path.getmtime(h["goto_file"]) >= t0 - 5:
                meta[h["pretty_name"]] = h
    return rc, meta, " ".join(cmd), time.time() - t0


def prepare(h, workdir, mem_gb):
    """kani-driver's goto-cc / goto-instrument steps (+ the drop-glue no-op)"""
    out = os.path.join(workdir, re.sub(r"\W+", "_", h["pretty_name"]) + ".out")
    gi = os.path.join(KBIN, "goto-instrument")
    gcc = os.path.join(KBIN, "goto-cc")
    _run([gcc, h["goto_file"], KANI_LIB_C, "-o", out], mem_gb, 600)
    _run([gcc, out, "--function", h["mangled_name"], "-o", out], mem_gb, 600)
    _run([gi, "--add-library", "--no-malloc-may-fail", out, out], mem_gb, 600)
    lst = subprocess.run([gi, "--list-goto-functions", out], capture_output=True, text=True, timeout=600).stdout
    nooped = []
    for ln in lst.split("\n"):
        if re.match(NOOP_DROP, ln) and "body not available" not in ln:
            m = re.search(r"/\* ([^ ,]+)", ln)
            if m:
                n = m.group(1)
                _run([gi, "--remove-function-body", n, out, out], mem_gb, 600)
                _run([gi, "--generate-function-body", "^" + re.escape(n) + "$", "--generate-function-body-options", "nothing", out, out], mem_gb, 600)
                nooped.append(ln.split(" /*")[0])
    _run([gi, "--generate-function-body-options", "assert-false-assume-false", "--generate-function-body", ".*", "--drop-unused-functions", out, out], mem_gb, 600)
    _run([gi, "--ensure-one-backedge-per-target", out, out], mem_gb, 600)
    return out, nooped


def parse_cbmc(path):
    """CBMC --json-ui output -> (properties, stats, messages)"""
    text = open(path, errors="replace").read()
    try:
        data = json.loads(text)
    except Exception:
        # truncated (killed): keep what is readable
        return None, {}, text[-2000:]
    props, stats, msgs = None, {}, []
    for m in data:
        if not isinstance(m, dict):
            continue
        if "result" in m:
            props = m["result"]
        t = m.get("messageText")
        if t and isinstance(t, str):
            for key, pat in (("runtime_symex_s", r"Runtime Symex: ([0-9.e+-]+)s"), ("runtime_solver_s", r"Runtime Solver: ([0-9.e+-]+)s"),
                             ("runtime_decision_procedure_s", r"Runtime decision procedure: ([0-9.e+-]+)s")):
                mm = re.search(pat, t)
                if mm:
                    stats[key] = stats.get(key, 0.0) + float(mm.group(1)) if key != "runtime_symex_s" else float(mm.group(1))
            mm = re.search(r"Generated (\d+) VCC\(s\), (\d+) remaining", t)
            if mm:
                stats["vccs_generated"], stats["vccs_remaining"] = int(mm.group(1)), int(mm.group(2))
            if m.get("messageType") in ("ERROR",) or "out of memory" in t.lower():
                msgs.append(t[:300])
    return props, stats, "\n".join(msgs)


def classify_prop(p):
    """-> kind in {assertion, cover, unwind, reach, unsupported, safety}, ok(bool)"""
    name = p.get("property", "")
    desc = p.get("description", "")
    st = p.get("status")
    cls = name.rsplit(".", 2)[-2] if name.count(".") >= 2 else ""
    if cls == "cover":
        return "cover", st in ("FAILURE",)  # a cover is encoded as assert(!cond): FAILURE = satisfiable
    if cls in ("unwind",) or "unwinding assertion" in desc or "recursion unwinding assertion" in desc:
        return "unwind", st == "SUCCESS"
    if cls == "reachability_check" or desc.startswith("KANI_CHECK_ID") or "KANI_REACHABILITY_CHECK" in desc:
        return "reach", True
    if cls == "unsupported_construct" or "is not currently supported" in desc:
        return "unsupported", st == "SUCCESS"
    return ("assertion" if cls in ("assertion", "expect_fail") else (cls or "safety")), st == "SUCCESS"


def run_one(h, workdir, mem_gb, timeout, trace=False):
    t0 = time.time()
    res = {"harness_id": h["pretty_name"], "status": "Error", "checks": [], "stats": {}, "nooped_drop_glue": []}
    try:
        out, nooped = prepare(h, workdir, mem_gb)
        res["nooped_drop_glue"] = nooped
    except Exception as e:  # noqa
        res["error"] = "prepare failed: %r" % e
        res["duration_ms"] = int((time.time() - t0) * 1000)
        return res
    unwind = h.get("attributes", {}).get("unwind_value")
    cmd = [os.path.join(KBIN, "cbmc")] + CBMC_FLAGS
    if unwind is not None:
        cmd += ["--unwind", str(unwind)]
    # per-loop bounds: "substring of the function name=N;..." resolved against cbmc --show-loops
    spec = h.get("verif_loops")
    if spec:
        try:
            sl = subprocess.run([os.path.join(KBIN, "cbmc"), "--show-loops", out], capture_output=True, text=True, timeout=300).stdout
            loops = re.findall(r"Loop (\S+):\n\s+file (.*?) line \d+(?: column \d+)? function (.*)", sl)
            sets = []
            for item in spec.split(";"):
                if "=" not in item:
                    continue
                sub, n = item.rsplit("=", 1)
                for (lid, _f, fn) in loops:
                    if sub.strip() in fn or sub.strip() in lid:
                        sets.append("%s:%s" % (lid, n.strip()))
            if sets:
                cmd += ["--unwindset", ",".join(sets)]
                res["unwindset"] = sets
        except Exception as e:  # noqa
            res["unwindset_error"] = repr(e)
    if trace:
        cmd += ["--trace"]
    cmd += [out, "--json-ui", "--verbosity", "8"]
    jpath = out + ".json"
    res["cbmc_cmd"] = " ".join(cmd)
    try:
        with open(jpath, "w") as fh:
            p = subprocess.run(cmd, stdout=fh, stderr=subprocess.DEVNULL, timeout=timeout, preexec_fn=_limits(mem_gb))
        rc = p.returncode
    except subprocess.TimeoutExpired:
        res["status"] = "Timeout"
        res["duration_ms"] = int((time.time() - t0) * 1000)
        try:
            os.remove(out)
        except OSError:
            pass
        return res
    props, stats, msgs = parse_cbmc(jpath)
    res["stats"] = stats
    res["duration_ms"] = int((time.time() - t0) * 1000)
    if props is None:
        res["status"] = "OutOfMemory" if rc in (-6, 6, 134, -9) or "memory" in (msgs or "").lower() else "Error"
        res["error"] = "cbmc rc=%s %s" % (rc, (msgs or "")[-300:])
    else:
        bad = False
        for p in props:
            kind, ok = classify_prop(p)
            loc = p.get("sourceLocation") or {}
            c = {"kind": kind, "ok": ok, "cbmc_status": p.get("status"), "description": p.get("description"), "property": p.get("property"),
                 "location": {"file": loc.get("file"), "line": loc.get("line"), "function": loc.get("function")}}
            if trace and p.get("trace"):
                c["trace_inputs"] = [
                    {"lhs": s.get("lhs"), "value": (s.get("value") or {}).get("data"), "fn": (s.get("sourceLocation") or {}).get("function")}
                    for s in p["trace"] if s.get("stepType") == "assignment" and "any_raw" in json.dumps(s.get("sourceLocation") or {})][:60]
            res["checks"].append(c)
            if kind not in ("cover", "reach") and not ok:
                bad = True
        res["status"] = "Failure" if bad else "Success"
    for f in (out, jpath):
        if not trace or f == out:
            try:
                os.remove(f)
            except OSError:
                pass
    return res


def run_all(meta, names, workdir, jobs, mem_gb, timeout):
    os.makedirs(workdir, exist_ok=True)
    results = {}
    with concurrent.futures.ThreadPoolExecutor(max_workers=jobs) as ex:
        futs = {ex.submit(run_one, meta[n], workdir, mem_gb, timeout): n for n in names if n in meta}
        for f in concurrent.futures.as_completed(futs):
            n = futs[f]
            try:
                results[n] = f.result()
            except Exception as e:  # noqa
                results[n] = {"harness_id": n, "status": "Error", "error": repr(e), "checks": [], "stats": {}}
    return results
