#!/bin/bash
# usage: benigntest.sh [Cxx ...]   (default: all patches under /verif/benign)
# Applies each behaviour-preserving refactoring of /verif/benign to a scratch worktree of /repo,
# runs the quick check of the property it was written against, and expects exit 0 (no VIOLATION, no
# inconclusive).  Nothing is applied to /repo; the worktree is removed at the end.
set -u
WT=${VERIF_SCRATCH:-/var/tmp}/benign_wt
git -C /repo worktree remove --force $WT 2>/dev/null
git -C /repo worktree add --detach -q $WT HEAD || exit 3
cp /repo/Cargo.lock $WT/ 2>/dev/null   # untracked in the repository, needed offline
props=("$@"); [ ${#props[@]} -eq 0 ] && props=($(ls /verif/benign/*.patch | xargs -n1 basename | sed 's/.patch//'))
fail=0
for p in "${props[@]}"; do
  git -C $WT checkout -q -- . ; git -C $WT apply /verif/benign/$p.patch || { echo "$p: patch does not apply"; fail=1; continue; }
  out=$(cd /verif && VERIF_EVIDENCE_DIR=${VERIF_SCRATCH:-/var/tmp}/ev_benign VERIF_NO_PLAYBACK=1 VERIF_REPO=$WT bin/check $p --tier quick 2>&1); rc=$?
  echo "$p exit=$rc $(echo "$out" | grep 'tier=quick')"
  [ $rc -ne 0 ] && { fail=1; echo "$out" | grep -E "^VIOLATION|^INCONCLUSIVE|^  obligation" | cut -c1-300; }
done
git -C /repo worktree remove --force $WT
exit $fail
