#!/usr/bin/env python3
"""Writes seeded/<id>/meta.json and seeded/README.md from the evaluation logs."""
import json, os, re, sys, glob
V = os.path.dirname(os.path.dirname(os.path.abspath(__file__)))
INFO = {
 "C01-1": ("C01", "c_decaps skips hybridized user secrets ('handled by h_decaps')", "an encryption policy mixing classic and hybridized rights (classic-mode encapsulation) and a user whose only matching right is hybridized"),
 "C02-1": ("C02", "Dict::remove shifts indices after removing the entry (off by one): the successor keeps a stale index (same patch as C03-1)", "a hierarchy with >= 3 attributes, deletion of an attribute with >= 2 successors, then key generation for the successor before any add or round-trip"),
 "C03-1": ("C03", "Dict::remove shifts indices after removing the entry (off by one): the successor keeps a stale index", "deletion of a non-highest attribute of a hierarchy followed by a lookup of the attribute directly above it"),
 "C04-1": ("C04", "RevisionIterator::next collects an Option<Vec> again (stops at the shortest chain)", "a key with >= 2 rights, rekey of a strict subset, refresh with keep-old, then an encapsulation made under the older public key"),
 "C05-1": ("C05", "refresh_coordinate_keys returns the user chain unchanged when its front equals the master front ('fast path')", "rekey, refresh keep, prune, refresh keep with no rekey in between"),
 "C06-1": ("C06", "MasterSecretKey::mpk publishes the first ACTIVATED secret of a chain instead of the front if activated", "rekey covering the attribute, then disable + update_msk"),
 "C07-1": ("C07", "J_hash hashes S twice and never U", "an encapsulation with >= 2 targets and a modified component that the user's key does not open"),
 "C08-1": ("C08", "sign hashes all right names first, then the flat sequence of secrets", "a key with >= 2 rights and a chain with > 1 secret; the last secret of a chain moved to the front of the next chain"),
 "C09-1": ("C09", "select_subkeys computes the hybridization flag with any() instead of all()", "an encryption policy whose clauses resolve to classic and hybridized rights: encaps fails although every right is published"),
 "C10-1": ("C10", "refresh takes the id out of the user key before the fallible refresh_id", "a key with a valid signature whose id is unknown to the master key (master key restored from a backup)"),
 "C11-1": ("C11", "combine takes the hint of the outermost dimension's attribute only (loop-invariant hoisting gone wrong)", "a right spanning two dimensions with the hybridized attribute in the inner one"),
 "C12-1": ("C12", "AE::decrypt uses split_at(NONCE_LENGTH) without the length guard", "an authorized key decrypting a DEM ciphertext truncated to 0..11 bytes"),
 "C13-1": ("C13", "UserSecretKey::read rebuilds chains with push_front (reversed)", "a user key holding >= 2 revisions of a right (rekey + keep-old refresh), round-tripped"),
 "C14-1": ("C14", "shuffle rewritten as Fisher-Yates with n - 1 (underflow on an empty slice)", "a deserialized encapsulation with zero components passed to decapsulation"),
 "C15-1": ("C15", "to_dnf skips the pair (X, X) when distributing a conjunction", "the same DNF clause on both sides of a conjunction, e.g. (A || B) && (A || C)"),
 "C16-1": ("C16", "recaps draws its randomness from a clone of the shared RNG", "recaps directly followed by another recaps or encaps for the same rights"),
 "C17-1": ("C17", "refresh_id checks the registry only when the tracing levels differ", "a key with a valid signature whose id is not registered (master key restored from a backup)"),
 "C18-1": ("C18", "full_decaps' classic branch tries classic master secrets only", "an original encapsulation whose targets mix classic and hybridized rights"),
 "C01-2": ("C01", "Dimension::restrict selects lower attributes by id instead of by rank (filter id <= id)", "a hierarchy attribute inserted below an existing one after it was created"),
 "C02-2": ("C02", "Dimension::restrict selects lower attributes by id instead of by rank (same mechanism as C01-2/C03-2)", "a hierarchy attribute inserted below existing ones: its keys receive the rights of higher attributes created earlier"),
 "C03-2": ("C03", "Dimension::restrict bounds the prefix by id (take_while id <= id)", "a hierarchy edit where rank order and creation order differ, then key generation"),
 "C04-2": ("C04", "refresh_coordinate_keys prepends (push_front) the master secrets the user is missing", "a right rekeyed at least twice without refresh, then two keep-old refreshes"),
 "C05-2": ("C05", "update_msk drops rights missing from the structure only when the universe shrank", "an attribute deleted and at least as many rights added before the same update"),
 "C06-2": ("C06", "rekey copies the activation flag and flavour from the OLDEST secret of the chain", "rekey while active, disable + update, rekey again"),
 "C09-2": ("C09", "verify skips the signature comparison when the user key carries no signature", "a user key whose trailing signature bytes were cut off, presented to a signing master key"),
 "C10-2": ("C10", "update_msk validates after take + retain and hands back the filtered secrets on error", "one failing update that both adds a born-disabled right and has lost an attribute the master key holds secrets for"),
 "C11-2": ("C11", "rekey generates a classic secret when the current secret is deactivated", "a hybridized attribute disabled, update_msk, then rekey of a policy covering it"),
 "C13-2": ("C13", "Dimension::write writes attributes sorted by id (hierarchy order lost)", "a hierarchy whose rank order differs from its id order, round-tripped"),
 "C14-2": ("C14", "ser::read_vec guard rewritten as prefix + len > available (overflow at len = 2^64-1)", "a length prefix replaced by 2^64-1"),
 "C01-4": ("C01", "generate_associated_rights drops a DNF conjunction that is a strict sub-conjunction of another one", "an encryption policy like 'A || (A && B)' and a user key covering only the smaller conjunction"),
 "C03-4": ("C03", "Dimension::add_attribute detects duplicates through Dict::insert on the partially rebuilt hierarchy", "adding an existing name that sits above the insertion point: Ok is returned and the existing attribute silently drops to a lower rank"),
 "C04-4": ("C04", "refresh without old secrets keeps a whole chain whose front already is the master's newest secret", "rekey, refresh keep-old, then refresh without old secrets (no rekey in between)"),
 "C05-4": ("C05", "Dict::remove off-by-one index shift (same patch as C03-1)", "two successive deletions in a hierarchy where the second target directly followed the first"),
 "C06-4": ("C06", "RevisionMap::get_latest_mut returns the OLDEST revision (back_mut)", "a right with >= 2 revisions when its attribute is disabled and the master key updated"),
 "C07-4": ("C07", "decaps truncates the trap vector to the user's tracing length before hashing and comparing", "an encapsulation whose trap vector was extended by a well-formed extra point (count bumped)"),
 "C10-4": ("C10", "usk_keygen draws (and registers) the user id before the fallible right lookup", "a key generation that fails after policy resolution: a right of the structure not yet in the master key"),
 "C11-4": ("C11", "update_msk calls drop_hybridization() without assigning the result", "the hint of an already keyed right changes from Hybridized to Classic"),
 "C08-3": ("C08", "refresh skips the integrity check when keep_old_rights is false", "a tampered key carrying a known id, refreshed without old secrets"),
 "C12-3": ("C12", "EncryptedHeader::decrypt returns empty metadata without running AES-GCM when the ciphertext is exactly nonce + tag", "present-but-empty metadata combined with different authentication data or an altered nonce / tag"),
 "C13-3": ("C13", "MasterSecretKey::read maps the activation flag 0 to true ('hardening' with a copy-pasted branch)", "a master key holding a disabled right, round-tripped, then rekey / prune (which rebuild the public key from the flags)"),
 "C14-3": ("C14", "EncryptedHeader::decrypt uses split_at(NONCE_LENGTH) without the length guard", "a parsed header whose metadata was cut to 1..11 bytes, decrypted with an authorized key"),
 "C15-3": ("C15", "find_matching_closing_parenthesis returns a character index again (chars().enumerate())", "a multi-byte character inside a parenthesised group"),
 "C16-3": ("C16", "KemAc::encaps runs on a clone of the shared RNG and writes the advanced state back (non-atomic read-modify-write)", "concurrent encapsulations on one shared instance"),
 "C17-3": ("C17", "generate_user_id pairs the random markers with the tracers in reversed order (rev().skip(1))", "a master key with tracing level >= 2 (3 or more tracers)"),
 "C18-3": ("C18", "recaps fails unless every target of the original was re-opened", "a multi-target original one of whose targets became unrecoverable (rekey + prune, deletion)"),
 "C02-5": ("C02", "Dimension::write serializes the attributes sorted by id ('deterministic output')", "a hierarchy whose rank order differs from creation order, a master-key serialization round-trip, then a key issued for a formerly lower attribute"),
 "C08-5": ("C08", "verify compares the signatures with a 'constant-time' zip over two Options (empty when the key carries none)", "a user key whose trailing signature bytes were removed, with any other tampering"),
 "C09-5": ("C09", "MasterSecretKey::mpk publishes the first activated secret anywhere in the chain", "rekey, then disable + update_msk: encapsulating for the disabled right succeeds under the older secret"),
 "C12-5": ("C12", "EncryptedHeader::read treats encrypted metadata shorter than a nonce as absent", "a header whose metadata was cut to 1..11 bytes, travelling in serialized form: it opens with metadata None instead of an error"),
 "C15-5": ("C15", "QualifiedAttribute::try_from trims the whole token once instead of both names", "a space next to the '::' separator"),
 "C16-5": ("C16", "the metadata key is derived with the authentication data as KDF label (0x00 only when absent)", "authentication data equal to the single byte 0x01: metadata key = caller's secret"),
 "C17-5": ("C17", "sign no longer covers the identifier ('already authenticated by the registry lookup')", "the identifier of one issued key spliced onto the body and signature of another, then refreshed"),
 "C18-5": ("C18", "select_subkeys: hybridization flag is last-one-wins instead of sticky false", "a re-encapsulation whose recovered rights mix classic and hybridized keys (depends on set order)"),
 "C01-6": ("C01", "BitOr for AccessPolicy: 'X || *' collapses to X (copy-paste from BitAnd)", "a policy with '*' as the right operand of an OR, on the user or the encryption side"),
 "C02-6": ("C02", "BitAnd for AccessPolicy: '* && X' collapses to '*' (copy-paste from BitOr)", "a conjunction with a trailing '*' (the parser folds from Broadcast): 'SEC::TOP && *' is encapsulated for everyone"),
 "C03-6": ("C03", "update_msk drops deleted rights only when the new right set is strictly smaller than the stored one", "a deletion batched with at least as many additions in one update, then refresh"),
 "C04-6": ("C04", "Covercrypt::rekey resolves the policy with ap_to_enc_rights (exact points) instead of ap_to_usk_rights", "an encapsulation whose policy differs from the rekey policy but shares rights with it"),
 "C05-6": ("C05", "prune pops only the oldest secret of each chain ('if' instead of 'while')", "a right rekeyed at least twice before the prune"),
 "C06-6": ("C06", "refresh_coordinate_keys does not hand over master secrets flagged deactivated", "rekey, encapsulate, disable + update, then refresh (keep) a key that had missed the rekey"),
 "C07-6": ("C07", "c_decaps de-duplicates adjacent masked seeds before computing U", "a classic encapsulation with a component repeated right after itself (count bumped)"),
 "C08-6": ("C08", "RevisionVec::insert_new_chain silently ignores a second chain for a right already present", "a serialized user key listing a right twice (arbitrary secrets in the copy): it deserializes to the issued key"),
 "C09-6": ("C09", "generate_semantic_space drops attributes of unknown dimensions (filter_map with ? on the Option)", "key generation / rekey / prune for a policy naming an unknown dimension: succeeds (broadcast when alone)"),
 "C10-6": ("C10", "rekey validation: '!any(contains)' instead of 'any(!contains)'", "a rekey whose rights are partly held and partly missing: the held ones are rotated before the error"),
 "C11-6": ("C11", "select_subkeys: hybridization flag is last-one-wins (same change as C18-5)", "a multi-target encapsulation mixing classic and hybridized rights, depending on set order"),
 "C12-6": ("C12", "ser::read_vec computes the remaining length with the prefix width of the buffer length instead of the payload length", "an encrypted header whose encrypted metadata is exactly 127 (or 16383) bytes and ends the buffer"),
 "C13-6": ("C13", "EncryptedHeader::read maps encrypted metadata of at most nonce + tag bytes to absent", "a header generated with present-but-empty metadata, round-tripped: different object, authentication skipped"),
 "C14-6": ("C14", "Dict::from_iter reserves the iterator's UPPER size hint", "an access structure whose hierarchy attribute count is replaced by 2^64-1: capacity overflow panic / huge allocation"),
 "C15-6": ("C15", "BitAnd absorption copied from BitOr with the wrong variant: x && (x && y) becomes x", "a parenthesised conjunction AND-ed onto one of its own operands"),
 "C16-6": ("C16", "Covercrypt::default seeds its RNG from the wall clock (seconds)", "two instances created within the same second: identical streams"),
 "C17-6": ("C17", "generate_user_secret_key runs on a clone of the shared RNG ('release the lock early')", "two keys generated back to back on one instance: same identifier, one registry entry"),
 "C18-6": ("C18", "full_decaps' hybridized branch ignores the activation flag", "a hybridized multi-target original one of whose targets was disabled afterwards: recaps fails with 'no public key'"),
 "C01-7": ("C01", "Dict::remove fills the freed slot with swap_remove (index map consistent, order scrambled)", "deleting an attribute that is neither last nor second to last of a hierarchy, then key generation for a higher attribute"),
 "C02-7": ("C02", "AccessStructure::add_attribute takes the LAST attribute of a hierarchy as the one holding its greatest id", "an attribute inserted below the top of a hierarchy (new global max id), then one more add: two attributes share an id"),
 "C03-7": ("C03", "Dimension::write serializes the attributes sorted by id (same change as C02-5)", "a hierarchy whose rank order differs from creation order, stored and reloaded"),
 "C04-7": ("C04", "UserSecretKey::read rebuilds chains with push_front (same change as C13-1)", "a refreshed key holding 2 revisions, stored and reloaded, then refreshed after the next rotation: integrity check fails"),
 "C05-7": ("C05", "Covercrypt::prune_master_secret_key resolves the policy with ap_to_enc_rights", "rekey + prune of a policy, then a keep-old refresh and an old encapsulation for another right of the same key"),
 "C06-7": ("C06", "update_msk no longer refuses rights born disabled: they get an activated secret", "an attribute added to another dimension after the disable, then update_msk"),
 "C07-7": ("C07", "EncryptedHeader::decrypt skips AES-GCM when the ciphertext is exactly nonce + tag (same change as C12-3)", "a header generated with empty metadata, any bit of its 28 bytes flipped"),
 "C08-7": ("C08", "Covercrypt::refresh_usk returns Ok early for a key holding no right", "a key tampered so that all its rights are removed (signature kept or not)"),
 "C09-7": ("C09", "Dict::remove skips the index shift when the removed entry is the second to last (len already decremented)", "deleting the attribute right below the top of a hierarchy, then using the top attribute: AttributeNotFound"),
 "C10-7": ("C10", "Dimension::add_attribute (anarchy) overwrites an existing attribute, then reports the duplicate", "a refused add of an existing name in an anarchic dimension: new id, hint and status reset inside the master key"),
 "C11-7": ("C11", "refresh_coordinate_keys matches user and master secrets on the ElGamal scalar only", "a hint downgrade of an existing right, a key issued before it, keep-old refresh: the key keeps its ML-KEM material"),
 "C12-7": ("C12", "shuffle rewritten as Fisher-Yates with len - 1 (same change as C14-1)", "an altered ciphertext whose component count is zero: decryption panics"),
 "C13-7": ("C13", "Dimension::read returns the default (anarchy) dimension when the attribute count is zero", "a hierarchy with no attribute at the time of the round-trip"),
 "C14-7": ("C14", "decaps slices the trap vector with ..=usk.tracing_level()", "a well-formed encapsulation with fewer traps than the user key has markers"),
 "C15-7": ("C15", "parse strips an outer '(' ... ')' pair of a group without checking that the two match", "a group whose content starts with one sub-group and ends with another: '((A || B) && (C || D))' is rejected"),
 "C16-7": ("C16", "MasterSecretKey::mpk publishes the most recent ACTIVATED secret (same change as C09-5)", "rekey, disable + update, rekey: the pre-rekey public value is published again"),
 "C17-7": ("C17", "refresh moves the identifier out of the user key before the registry lookup (same change as C10-1)", "a refresh refused because the identifier is unknown: the key is left with an empty identifier"),
 "C18-7": ("C18", "MasterSecretKey::mpk publishes the most recent ACTIVATED secret (same change as C09-5)", "encapsulate, rekey, disable + update, recaps: succeeds for a right that cannot be published"),
 "C01-8": ("C01", "Dimension::rename_attribute unified as remove + insert (a renamed hierarchy attribute moves to the top rank)", "renaming a non-top attribute of a hierarchy, then a key for a higher attribute: it no longer opens the renamed one"),
 "C02-8": ("C02", "Dimension::rename_attribute (hierarchy) rewritten as remove + insert", "renaming a non-top attribute of a hierarchy, then a key for the new name: it opens every higher attribute"),
 "C03-8": ("C03", "Dimension::rename_attribute (hierarchy) rewritten as remove + insert (same change as C02-8)", "a rename in a hierarchy followed by key generation"),
 "C04-8": ("C04", "h_decaps caches the ElGamal session key per right (a chain holds one secret per revision)", "a hybridized right with 2 revisions in the user key and a hybridized encapsulation made before the rotation"),
 "C05-8": ("C05", "refresh without old secrets uses map_while: stops at the first right the master key no longer holds", "a deletion, update_msk, refresh(keep=false): surviving rights stored after the deleted one are lost"),
 "C06-8": ("C06", "Attribute::read maps (hybridized, disabled) to EncryptDecrypt", "a disabled hybridized attribute, master key stored and reloaded, then update_msk: keys are published again"),
 "C07-8": ("C07", "tag comparison rewritten as a 'constant-time' XOR fold (diff ^= a ^ b)", "two tag bytes changed by the same XOR value, or swapped; ~1/256 of the changes of a masked seed"),
 "C08-8": ("C08", "TracingSecretKey::is_known falls back to the tracing relation when the registry lookup misses", "a key issued after the master key was saved, presented to the restored master key"),
 "C09-8": ("C09", "get_latest_right_sk silently skips rights the master key does not hold (filter moved from refresh)", "key generation for a policy whose rights are not all in the master key: truncated key instead of an error"),
 "C10-8": ("C10", "Dimension::rename_attribute (anarchy) detects the clash with the return value of insert", "a refused rename onto an existing name: the existing attribute is overwritten inside the master key"),
 "C11-8": ("C11", "Attribute::get_encryption_hint reports Classic for a disabled attribute", "disabling the hybridized attribute itself, then update_msk: the right loses its ML-KEM key"),
 "C12-8": ("C12", "PkeAc::decrypt maps an AE failure to Ok(None)", "an authorized key and an altered or truncated DEM payload: 'not authorized' instead of an error"),
 "C13-8": ("C13", "MasterSecretKey::length sizes a whole chain from its front secret", "a chain whose revisions have different flavours (hint downgraded after a rekey)"),
 "C14-8": ("C14", "Sum for R25519Point uses reduce().expect(..)", "a parsed encapsulation without any trap, or a parsed user key without marker: decapsulation panics"),
 "C15-8": ("C15", "the '&&' branch of parse recurses on the remainder like the '||' branch", "'A && B || C' parses as 'A && (B || C)'"),
 "C16-8": ("C16", "AE::encrypt derives its nonce from key and plaintext", "two direct AE encryptions under the same key and plaintext"),
 "C17-8": ("C17", "TracingSecretKey::read accumulates markers across registered identifiers (buffer never cleared)", "a master key with two or more issued keys, stored and reloaded"),
 "C18-8": ("C18", "full_decaps (hybridized) stops scanning after the first opened component; flag never reset", "an all-hybridized original with two or more targets: the re-encapsulation loses targets"),
 "C01-9": ("C01", "generate_complementary_points returns only the broadcast point for an empty clause", "a user key for '*' on a non-empty structure: it opens nothing but '*' encapsulations"),
 "C02-9": ("C02", "the '||' branch of parse keeps only the first operand queued before the operator", "an unparenthesised 'A && B || C && D' user policy: the key receives every right containing A"),
 "C03-9": ("C03", "generate_complementary_points drops the combinations containing a disabled attribute", "a key generated after an attribute was disabled, whose policy does not name that attribute's dimension"),
 "C04-9": ("C04", "generate_complementary_rights skips a clause whose own point was already produced by an earlier clause", "rekey of a disjunction whose more specific clause comes first: rights of the later clause keep their old secret"),
 "C05-9": ("C05", "prune rewritten with try_for_each over keep(..).map(drop): stops at the first right the master key lacks", "prune while the structure is ahead of the master key (attribute added, no update yet)"),
 "C06-9": ("C06", "MasterSecretKey::write writes any(activated) of the chain for every secret", "rekey, disable + update, master key stored and reloaded: the re-derived public key publishes the right again"),
 "C07-9": ("C07", "R25519Point::read masks the top bit of the last byte before decompression (non-canonical encodings accepted)", "bit 7 of the last byte of a trap flipped: same object, same secret"),
 "C08-9": ("C08", "sign covers only the newest secret of each chain", "a key with 2 revisions of a right whose older revisions are removed, swapped or overwritten"),
 "C09-9": ("C09", "Dict::update_key returns Ok early when the new key equals the old one", "renaming an attribute of a hierarchy to its own name, existing or not"),
 "C10-9": ("C10", "prune refuses rights the master key lacks from inside its loop", "prune while the structure is ahead of the master key: error after some rights were already pruned"),
 "C11-9": ("C11", "update_msk skips the KEM-key drop for rights that are DecryptOnly in the same update", "a hint downgrade landing in the same update as a deactivation"),
 "C12-9": ("C12", "h_decaps shuffles the components before hashing T and U (shadowed variable)", "a hybridized encapsulation with 2 or more targets: an authorized key is refused most of the time"),
 "C13-9": ("C13", "MasterSecretKey::write writes the front secret's activation flag for every secret of a chain", "rekey, disable + update, then a master-key round-trip: older activated revisions come back deactivated"),
 "C14-9": ("C14", "UserId::read collects with flat_map over Results (errors swallowed, loop runs for the announced count)", "a user key or master key announcing 2^48..2^64-1 markers: deserialization does not terminate"),
 "C15-9": ("C15", "parse indexes the second operator byte directly (e.as_bytes()[1])", "a string or group ending with a lone '|' or '&': panic instead of an error"),
 "C16-9": ("C16", "EncryptedHeader::generate falls back to an all-zero nonce when the RNG mutex is contended (try_lock)", "headers with metadata generated concurrently on one shared instance"),
 "C17-9": ("C17", "UserId::tracing_level returns the marker count (off by one)", "any refresh: refresh_id takes its level-mismatch branch, re-issues the identifier and drops the old one"),
 "C18-9": ("C18", "full_decaps tries only the chain depth at which the first component was opened", "a multi-target original whose targets were rekeyed a different number of times"),
 "C07-2": ("C07", "Encapsulations::read accepts any flag value other than 1 as 'classic' (flag turned into a bool, error branch removed)", "a classic encapsulation whose flag byte is changed in bits 1..6: it deserializes to the same object and still decapsulates"),
}
logs = ""
for f in ("/var/tmp/seedeval.txt", "/var/tmp/seedeval2.txt", "/var/tmp/seedeval3.txt", "/var/tmp/seedeval4.txt", "/var/tmp/seedeval5.txt", "/var/tmp/seedeval5_c03.txt", "/var/tmp/seedeval6.txt", "/var/tmp/seedeval6b.txt", "/var/tmp/seedeval6c.txt", "/var/tmp/seedeval7.txt", "/var/tmp/seedeval8.txt", "/var/tmp/seedeval9.txt", "/var/tmp/seedeval10.txt", "/var/tmp/seedeval11.txt", "/var/tmp/seedeval12.txt", "/var/tmp/seedeval13.txt", "/var/tmp/seedeval14.txt", "/var/tmp/seedeval15.txt", "/var/tmp/seedeval16.txt"):
    if os.path.exists(f):
        logs += open(f).read()
# split per section
sections = {}
runs = {}
cur = None
order1 = iter([])
for ln in logs.split("\n"):
    m = re.match(r"=== (\S+)", ln)
    if m:
        key = m.group(1)
        if key.startswith("/tmp/mut9/"):
            cur = key.split("/")[-1] + "-9"
        elif key.startswith("/tmp/mut8/"):
            cur = key.split("/")[-1] + "-8"
        elif key.startswith("/tmp/mut7/"):
            cur = key.split("/")[-1] + "-7"
        elif key.startswith("/tmp/mut6/"):
            cur = key.split("/")[-1] + "-6"
        elif key.startswith("/tmp/mut5/"):
            cur = key.split("/")[-1] + "-5"
        elif key.startswith("/tmp/mut4/"):
            cur = key.split("/")[-1] + "-4"
        elif key.startswith("/tmp/mut3/"):
            cur = key.split("/")[-1] + "-3"
        elif key.startswith("/tmp/mut2/"):
            cur = key.split("/")[-1] + "-2"
        elif key.startswith("/tmp/mut/"):
            cur = key.split("/")[-1] + "-1"
        else:
            cur = key + "-1"
        runs.setdefault(cur, []).append([])
        sections[cur] = runs[cur][-1]
    elif cur:
        sections[cur].append(ln)
confirm = {}
for f in ("/var/tmp/confirm.txt", "/var/tmp/confirm2.txt", "/var/tmp/confirm3.txt", "/var/tmp/confirm4.txt", "/var/tmp/confirm5.txt", "/var/tmp/confirm6.txt", "/var/tmp/confirm7.txt", "/var/tmp/confirm8.txt", "/var/tmp/confirm8b.txt", "/var/tmp/confirm9.txt"):
    if os.path.exists(f):
        for ln in open(f):
            m = re.match(r"(C\d+(?:-\d)?) \| (.*)", ln)
            if m:
                k = m.group(1) if "-" in m.group(1) else m.group(1) + "-1"
                confirm[k] = m.group(2).strip()
rows = []
for sid, (prop, what, needs) in sorted(INFO.items()):
    d = os.path.join(V, "seeded", sid)
    if not os.path.isdir(d) or not os.path.exists(os.path.join(d, "patch.diff")):
        continue
    sec = sections.get(sid, [])
    caught = [re.sub(r"^  obligation (\S+) failed:.*", r"\1", l) for l in sec if l.startswith("  obligation")]
    summary = next((l for l in sec if "tier=quick" in l), "")
    meta = {
        "id": sid, "property": prop, "change": what, "needs_to_manifest": needs,
        "files": {"patch": "patch.diff", "demonstration": [os.path.basename(x) for x in glob.glob(os.path.join(d, "demo_*.rs"))]},
        "confirmed_in_scratch_worktree": confirm.get(sid, "see run log"),
        "what_was_run": "scratch worktree: cargo test --workspace --no-fail-fast --offline (33 original tests pass, demo fails) ; demo with the patch reverted (passes); then `VERIF_REPO=<worktree> bin/check %s --tier quick` (the check rebuilds from that tree)" % prop,
        "caught_by": sorted(set(caught)),
        "check_summary": summary,
        "detected": bool(caught),
        "evaluations": [{"caught_by": sorted(set(re.sub(r"^  obligation (\S+) failed:.*", r"\1", l) for l in r if l.startswith("  obligation"))),
                         "summary": next((l for l in r if "tier=quick" in l), "")} for r in runs.get(sid, [])],
    }
    meta["missed_before_strengthening"] = any(not e["caught_by"] for e in meta["evaluations"][:-1]) if len(meta["evaluations"]) > 1 else False
    json.dump(meta, open(os.path.join(d, "meta.json"), "w"), indent=1)
    rows.append(meta)
with open(os.path.join(V, "seeded", "README.md"), "w") as fh:
    fh.write("# Seeded changes (written by independent sub-agents from the property text only) and the checks that catch them\n\n")
    fh.write("Each directory holds `patch.diff` (the change to Cosmian/cover_crypt), the demonstration test and `meta.json`.\nEvery change compiles, passes the 33 original tests, and makes its demonstration fail (confirmed in a scratch worktree).\n\n")
    fh.write("| id | property | change | caught by (obligations of `bin/check <property>`) |\n|---|---|---|---|\n")
    for m in rows:
        fh.write("| %s | %s | %s | %s |\n" % (m["id"], m["property"], m["change"], ", ".join(m["caught_by"]) or "**not caught**"))
print(len(rows), "seeds;", [m["id"] for m in rows if not m["detected"]], "not detected (or not yet evaluated)")
