#!/bin/bash
# Developer helper: run one harness in the scratch copy with resource caps and terse output.
# usage: krun.sh <scratch> <timeout_s> <mem_gb> <harness> [extra cargo-kani args...]
S=$1; T=$2; M=$3; H=$4; shift 4
cd "$S/repo" || exit 2
[ -f Cargo.lock ] || cp /repo/Cargo.lock .
LOG="$S/logs/$H.log"; mkdir -p "$S/logs"
ulimit -v $((M*1024*1024))
START=$(date +%s)
PATH=/verif/tools/shim:$PATH CARGO_NET_OFFLINE=true timeout "$T" cargo kani --no-default-features -Z stubbing -Z unstable-options \
  --no-memory-safety-checks --target-dir "$S/target" --harness "$H" "$@" > "$LOG" 2>&1
RC=$?
END=$(date +%s)
echo "== $H rc=$RC wall=$((END-START))s"
grep -E "^(Runtime Symex|Runtime Solver|Runtime decision|VERIFICATION|Verification Time|Generated [0-9]+ VCC|Out of memory|error(\[|:)| \*\* [0-9]+ of)" "$LOG" | cut -c1-220 | head -12
grep -B3 -E "^\s+- Status: (FAILURE|UNDETERMINED|UNSATISFIABLE|UNREACHABLE)" "$LOG" | grep -E "Description|Status" | cut -c1-200 | head -${KRUN_LINES:-30}
