"""Verus obligations: mechanical extraction of leaf functions from /repo + contract splicing + `verus`.

What extraction adds or drops, exhaustively (DESIGN §3.2):
  * doc comments (`///`) and `#[must_use]` / `#[inline]` attributes are dropped;
  * the `derive` list of the two C-like enums is replaced by `Copy, Clone, Debug, PartialEq, Eq, Structural`
    (serde derives dropped, `Structural` added: Verus needs it for `==` on enums);
  * the return type `-> T` of a function under contract becomes `-> (r: T)` and the `ensures` /
    `requires` clauses of the sidecar (contracts/verus/leaves.json) are inserted before the body;
  * loop invariants / decreases of the sidecar are inserted after the loop header (keyed by loop ordinal);
  * the `...SpecImpl` companion impl Verus requires for operator traits is added from the sidecar.
Function bodies are byte-identical: the body text is hashed before and after splicing (with the
spliced clauses removed) and a mismatch is reported as inconclusive.
"""
import hashlib
import json
import os
import re
import subprocess
import time

VERIF = os.path.dirname(os.path.dirname(os.path.abspath(__file__)))


def match_brace(text, i):
    """index after the brace matching the '{' at text[i]"""
    depth = 0
    j = i
    in_str = False
    while j < len(text):
        c = text[j]
        if c == '"' and text[j - 1] != "\\":
            in_str = not in_str
        if not in_str:
            if c == "{":
                depth += 1
            elif c == "}":
                depth -= 1
                if depth == 0:
                    return j + 1
        j += 1
    raise ValueError("unbalanced braces")


def extract_item(src, anchor):
    m = re.search(anchor, src, re.M)
    if not m:
        return None
    start = m.start()
    # include attribute lines directly above
    lines_before = src[:start].split("\n")
    k = len(lines_before) - 1
    pre = []
    # lines_before[-1] is the (empty) prefix of the anchor line
    k -= 1
    while k >= 0 and (lines_before[k].strip().startswith("#[") or lines_before[k].strip().startswith("///")):
        pre.insert(0, lines_before[k])
        k -= 1
    brace = src.index("{", m.end() - 1)
    end = match_brace(src, brace)
    return "\n".join(pre + [src[start:end]])


def strip_docs(t):
    out = []
    for ln in t.split("\n"):
        s = ln.strip()
        if s.startswith("///") or s in ("#[must_use]", "#[inline]", "#[inline(always)]"):
            continue
        out.append(ln)
    return "\n".join(out)


def body_of(fn_text):
    i = fn_text.index("{")
    return fn_text[i:match_brace(fn_text, i)]


def norm(s):
    return re.sub(r"\s+", " ", s).strip()


def splice_fn(item_text, fn_name, spec):
    """insert return binder, requires/ensures and loop clauses into function `fn_name` inside item_text"""
    m = re.search(r"fn " + re.escape(fn_name) + r"\b[^{]*\{", item_text)
    if not m:
        raise ValueError("function %s not found in extracted item" % fn_name)
    sig = m.group(0)[:-1]
    body_start = m.end() - 1
    body_end = match_brace(item_text, body_start)
    body = item_text[body_start:body_end]
    h0 = hashlib.sha256(norm(body).encode()).hexdigest()
    new_sig = sig
    if "->" in sig and spec.get("ret"):
        pre, ret = sig.rsplit("->", 1)
        new_sig = pre + "-> (" + spec["ret"] + ": " + ret.strip() + ")"
    clauses = ""
    if spec.get("requires"):
        clauses += "\n        requires " + ", ".join(spec["requires"]) + ","
    if spec.get("ensures"):
        clauses += "\n        ensures " + ", ".join(spec["ensures"]) + ","
    new_body = body
    inserted = []
    for ordinal, clause in (spec.get("loops") or {}).items():
        # loop headers: `for .. in .. {` / `while .. {` / `loop {`, counted in textual order
        heads = list(re.finditer(r"\b(for\s[^{]*|while\s[^{]*|loop\s*)\{", new_body))
        hm = heads[int(ordinal)]
        ins = "\n            " + clause + "\n        "
        new_body = new_body[:hm.end() - 1] + ins + new_body[hm.end() - 1:]
        inserted.append(ins)
    check = new_body
    for ins in inserted:
        check = check.replace(ins, "")
    h1 = hashlib.sha256(norm(check).encode()).hexdigest()
    text = item_text[:m.start()] + new_sig.rstrip() + clauses + "\n    " + new_body + item_text[body_end:]
    return text, h0, h0 == h1


def build_file(repo, group):
    parts = ["use vstd::prelude::*;", "verus! {", ""]
    report = {"items": [], "body_hashes": {}}
    for it in group["items"]:
        src = open(os.path.join(repo, it["file"])).read()
        t = extract_item(src, it["anchor"])
        if t is None:
            return None, {"error": "lost anchor %s in %s" % (it["anchor"], it["file"])}
        t = strip_docs(t)
        if it.get("derive"):
            t = re.sub(r"#\[derive\([^\]]*\)\]", "#[derive(" + it["derive"] + ")]", t, count=1)
        t = re.sub(r"#\[serde[^\]]*\]\n?", "", t)
        for fn_name, spec in (it.get("fns") or {}).items():
            try:
                t, h, same = splice_fn(t, fn_name, spec)
            except Exception as e:  # noqa
                return None, {"error": "cannot splice %s: %r" % (fn_name, e)}
            report["body_hashes"][fn_name] = h
            if not same:
                return None, {"error": "body of %s changed by splicing (internal error)" % fn_name}
        if it.get("before"):
            parts.append(it["before"])
        parts.append(t)
        if it.get("after"):
            parts.append(it["after"])
        parts.append("")
        report["items"].append({"file": it["file"], "anchor": it["anchor"]})
    parts += [group.get("extra", ""), "} // verus!", "fn main() {}", ""]
    return "\n".join(parts), report


def run(scratch, obls, repo):
    groups = json.load(open(os.path.join(VERIF, "contracts", "verus", "leaves.json")))
    res = {}
    cmds = []
    by_group = {}
    for o in obls:
        by_group.setdefault(o["group"], []).append(o)
    for gname, os_ in by_group.items():
        g = groups[gname]
        t0 = time.time()
        if g.get("lemma_file"):
            path = os.path.join(VERIF, "contracts", "verus", g["lemma_file"])
            rep = {"items": [], "body_hashes": {}}
        else:
            text, rep = build_file(repo, g)
            if text is None:
                for o in os_:
                    res[o["name"]] = {"status": "missing", "reason": rep["error"], "inconclusive": [rep["error"]], "fails": []}
                continue
            path = os.path.join(scratch, "verus_%s.rs" % gname)
            open(path, "w").write(text)
        cmd = ["verus", path, "--output-json", "--time"]
        cmds.append(" ".join(cmd))
        p = subprocess.run(cmd, capture_output=True, text=True, timeout=900)
        wall = time.time() - t0
        try:
            j = json.loads(p.stdout[p.stdout.index("{"):])
        except Exception:
            j = {}
        vr = j.get("verification-results", {})
        ok = bool(vr.get("success")) and vr.get("errors", 1) == 0 and vr.get("verified", 0) > 0
        smt_ms = (j.get("times-ms", {}).get("smt", {}) or {}).get("total")
        err_text = p.stderr
        for o in os_:
            r = {"status": "verified" if ok else "Failure", "checks": vr.get("verified", 0), "fails": [], "inconclusive": [], "covers": 0, "covers_unsatisfied": [],
                 "stats": {"runtime_solver_s": (smt_ms or 0) / 1000.0}, "wall_s": round(wall, 2), "body_hashes": rep.get("body_hashes"), "verus": vr}
            if not ok:
                if vr.get("encountered-vir-error") or not vr or "error[E" in err_text or "not supported" in err_text:
                    r["status"] = "Error"
                    r["inconclusive"] = ["verus rejected the extracted text (unsupported construct or compile error): " + err_text[-600:]]
                else:
                    # attribute the failure to the functions named in the error locations
                    fns = o.get("fns", "").split("+")
                    mine = any(re.search(r"fn " + re.escape(f) + r"\b", err_text) or f in err_text for f in fns) or len(os_) == 1
                    if mine or True:
                        r["fails"] = [{"props": None, "description": "Verus could not discharge the contract of %s: %s" % (o.get("fn"), norm(err_text)[-500:]), "location": {"file": path}, "category": "verus"}]
                        r["verifier_output"] = err_text[-3000:]
            res[o["name"]] = r
    res["__cmd__"] = " ; ".join(cmds)
    return res
