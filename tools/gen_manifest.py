#!/usr/bin/env python3
"""Regenerates MANIFEST.json from the obligation registry (run after adding obligations)."""
import json, os, sys
sys.path.insert(0, os.path.dirname(os.path.abspath(__file__)))
import vcheck

NOTES = json.load(open(os.path.join(vcheck.VERIF, "contracts", "manifest_notes.json")))
reg = vcheck.load_registry()
props = ["C%02d" % i for i in range(1, 20)]
checks, na = [], []
for p in props:
    obls = [o for o in reg if p in o["props"]]
    note = NOTES.get(p, {})
    if not obls or note.get("not_applicable"):
        na.append({"property_id": p, "reason": note.get("not_applicable") or "no contract obligation is registered for this property yet"})
        continue
    quick = [o for o in obls if o["tier"] == "quick"]
    fns = sorted(set(o.get("fn") for o in obls if o.get("fn")))
    allproved = all(o["class"] == "proved" for o in obls)
    checks.append({
        "property_id": p,
        "quick_cmd": "bin/check %s --tier quick" % p,
        "thorough_cmd": "bin/check %s --tier thorough" % p,
        "evidence_file": "/verif/evidence/%s.json" % p,
        "replay_cmd_template": "bin/check %s --replay {path}" % p,
        "engine": "kani-contracts",
        "technique": note.get("technique", "contract-based deductive verification: pre/postcondition harnesses on the real functions discharged by Kani/CBMC (symbolic values, enumerated shapes), Verus on mechanically extracted leaves"),
        "level_claimed": {
            "category": "proof" if allproved else "other",
            "text": note.get("text", "") + " %d obligations (%d in the quick tier) on %d functions: %s. Obligations over dynamic structures are bounded (symbolic values on stated shapes, unwinding assertions on) and are reported as bounded, never as proved." % (len(obls), len(quick), len(fns), ", ".join(fns)),
            "design_ref": "DESIGN.md §5-%s" % p,
        },
        "level_note": note.get("level_note", "") + " Trusted base: toy NIKE/KEM instances instead of the curve and ML-KEM wrappers, recording stubs for SHA3/KMAC, symbolic RNG, bounded heap-free substitutes for std HashMap/HashSet/LinkedList, Kani/CBMC/rustc; see evidence.assumptions.",
    })
man = {
    "version": 1,
    "setup_cmd": "bin/check setup",
    "hooks": {
        "guard": "kani",
        "enable": "cfg(kani) is set only by the Kani compiler; all verification code lives in /verif/overlay and is injected into a scratch copy of /repo by tools/overlay.py (nothing is added to /repo)",
        "baseline_off_cmd": "cd /repo && cargo test --workspace --no-fail-fast --offline",
        "source_commits": [],
        "add_only": True,
    },
    "engines": [
        {"name": "kani-contracts", "path": "/verif/bin/check", "serves_properties": [c["property_id"] for c in checks],
         "kind_free_text": "contract harnesses (requires = assume, ensures = named assertions) on the real functions of /repo, compiled from the current tree by cargo kani --only-codegen and discharged per harness by CBMC 6.11; Verus for extracted leaves and lemmas"},
    ],
    "checks": checks,
    "not_applicable": na,
    "notes": NOTES.get("_notes", ""),
}
json.dump(man, open(os.path.join(vcheck.VERIF, "MANIFEST.json"), "w"), indent=1)
print("checks:", [c["property_id"] for c in checks]); print("n/a:", [n["property_id"] for n in na])
