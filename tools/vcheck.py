"""Driver of the contract checks (see bin/check)."""
import fcntl
import glob
import hashlib
import json
import os
import re
import shutil
import subprocess
import sys
import tempfile
import time

VERIF = os.path.dirname(os.path.dirname(os.path.abspath(__file__)))
REPO = os.environ.get("VERIF_REPO", "/repo")
CACHE = os.environ.get("VERIF_CACHE") or os.path.join(VERIF, ".cache")
KANI_FLAGS = ["--no-default-features", "-Z", "stubbing", "-Z", "unstable-options", "--no-memory-safety-checks"]

TRUSTED_BASE = [
    "Ristretto25519/P-256 wrappers (core/nike/*) replaced under cfg(kani) by a toy key-homomorphic NIKE over Z_251 whose group/ring laws are themselves checked (full domain)",
    "ML-KEM wrappers (core/kem/mlkem.rs) replaced under cfg(kani) by a 1-byte toy KEM (correctness assumed for the real one)",
    "SHA3-256/384/512 and KMAC256 (tiny_keccak) replaced by recording stubs: every call logs its input stream and returns unconstrained bytes",
    "AES-256-GCM, SymmetricKey::derive, kdf256 (cosmian_crypto_core): assumed correct and authentic",
    "CsRng replaced by SymRng: every draw is an unconstrained symbolic value (freshness/non-repetition of the real CSPRNG assumed)",
    "std::collections::{HashMap,HashSet} replaced by import rewriting with a list-backed finite map/set of identical API (std containers assumed to implement the finite map/set contract; iteration order = insertion order)",
    "zeroize::optimization_barrier (inline asm) and alloc::fmt::format (error messages) stubbed to no-ops",
    "parametricity of the generic containers Dict/RevisionMap/RevisionVec (contracts discharged at small key types)",
    "Kani 0.68 / CBMC 6.11 / CaDiCaL, Verus 0.2026.09.13 / Z3 and rustc are trusted; --no-memory-safety-checks is used because /repo contains no unsafe code (panics, overflow and bounds failures stay checked)",
]


def log(*a):
    print(*a, file=sys.stderr, flush=True)


# ---------------------------------------------------------------------------
# registry
# ---------------------------------------------------------------------------

def parse_kv(s):
    out = {}
    for m in re.finditer(r'(\w+)=("([^"]*)"|\S+)', s):
        out[m.group(1)] = m.group(3) if m.group(3) is not None else m.group(2)
    return out


def module_path(relfile):
    # overlay/src/core/primitives/kani_h.rs -> core::primitives::kani_h
    p = relfile[:-3].split(os.sep)
    if p[-1] == "mod":
        p = p[:-1]
    return "::".join(p)


def load_registry():
    """Every obligation is declared by a `// @obl ...` line placed right before
    the harness (a `kproof!{ fn name() ..}` block or a contract-macro call whose
    first argument is the harness name)."""
    obls = []
    base = os.path.join(VERIF, "overlay", "src")
    for root, _, files in os.walk(base):
        for f in sorted(files):
            if not f.endswith(".rs"):
                continue
            path = os.path.join(root, f)
            rel = os.path.relpath(path, base)
            lines = open(path).read().split("\n")
            i = 0
            while i < len(lines):
                ln = lines[i].strip()
                if ln.startswith("// @obl"):
                    kv = parse_kv(ln[len("// @obl"):])
                    while lines[i + 1].strip().startswith("// @obl+"):
                        i += 1
                        kv.update(parse_kv(lines[i].strip()[len("// @obl+"):]))
                    name = None
                    for j in range(i + 1, min(i + 12, len(lines))):
                        m = re.match(r"\s*(?:pub(?:\([^)]*\))?\s+)?fn (\w+)\s*\(\)", lines[j]) or re.match(r"\s*\w+!\s*\(\s*(\w+)", lines[j])
                        if m:
                            name = m.group(1)
                            break
                    if not name:
                        raise SystemExit("registry: no harness after @obl at %s:%d" % (rel, i + 1))
                    kv["name"] = name
                    kv["harness"] = module_path(rel) + "::" + name
                    kv["file"] = os.path.join("overlay/src", rel)
                    kv["props"] = kv.get("props", "").split(",")
                    kv.setdefault("tier", "quick")
                    kv.setdefault("class", "bounded")
                    kv.setdefault("engine", "kani")
                    obls.append(kv)
                i += 1
    nbase = os.path.join(VERIF, "native", "src")
    for root, _, files in os.walk(nbase):
        for f in sorted(files):
            if not f.endswith(".rs"):
                continue
            path = os.path.join(root, f)
            rel = os.path.relpath(path, nbase)
            lines = open(path).read().split("\n")
            for i, ln in enumerate(lines):
                if ln.strip().startswith("// @obl"):
                    kv = parse_kv(ln.strip()[len("// @obl"):])
                    name = None
                    for j in range(i + 1, min(i + 6, len(lines))):
                        m = re.match(r"\s*fn (\w+)\s*\(\)", lines[j])
                        if m:
                            name = m.group(1)
                            break
                    if not name:
                        raise SystemExit("registry: no test after @obl at native/%s:%d" % (rel, i + 1))
                    kv.update({"name": name, "harness": module_path(rel) + "::" + name, "file": os.path.join("native/src", rel),
                               "props": kv.get("props", "").split(","), "engine": "native"})
                    kv.setdefault("tier", "quick")
                    kv["class"] = "bounded"
                    obls.append(kv)
    vdir = os.path.join(VERIF, "contracts", "verus")
    reg = os.path.join(vdir, "registry.json")
    if os.path.exists(reg):
        for o in json.load(open(reg)):
            o.setdefault("tier", "quick")
            o.setdefault("class", "proved")
            o["engine"] = "verus"
            obls.append(o)
    names = [o["name"] for o in obls]
    dup = set(n for n in names if names.count(n) > 1)
    if dup:
        raise SystemExit("registry: duplicate obligation names %s" % sorted(dup))
    return obls


def load_known():
    p = os.path.join(VERIF, "known_findings.json")
    if not os.path.exists(p):
        return {"known": [], "fixed": []}
    return json.load(open(p))


# ---------------------------------------------------------------------------
# kani
# ---------------------------------------------------------------------------

class Scratch:
    def __init__(self, keep=False):
        base = os.environ.get("VERIF_SCRATCH_BASE", "/var/tmp")
        self.dir = tempfile.mkdtemp(prefix="verif-", dir=base)
        self.keep = keep

    def cleanup(self):
        if not self.keep:
            shutil.rmtree(self.dir, ignore_errors=True)


def build_overlay(scratch):
    r = subprocess.run([sys.executable, os.path.join(VERIF, "tools", "overlay.py"), scratch, "--repo", REPO],
                       capture_output=True, text=True)
    if r.returncode != 0:
        log(r.stdout + r.stderr)
        return None
    shutil.copy(os.path.join(REPO, "Cargo.lock"), os.path.join(scratch, "repo", "Cargo.lock"))
    return json.load(open(os.path.join(scratch, "overlay_report.json")))


def kani_env(mem_gb):
    env = dict(os.environ)
    env["CARGO_NET_OFFLINE"] = "true"
    env.pop("RUSTFLAGS", None)
    env.pop("CARGO_TARGET_DIR", None)
    return env


def run_limited(cmd, cwd, env, mem_gb, timeout, logfile):
    """runs cmd with an address-space cap that every child (cbmc) inherits"""
    sh = "ulimit -v %d; exec \"$@\"" % (mem_gb * 1024 * 1024)
    with open(logfile, "w") as fh:
        try:
            p = subprocess.run(["bash", "-c", sh, "--"] + cmd, cwd=cwd, env=env, stdout=fh, stderr=subprocess.STDOUT, timeout=timeout)
            return p.returncode
        except subprocess.TimeoutExpired:
            return -9


def target_dir():
    os.makedirs(CACHE, exist_ok=True)
    return os.path.join(CACHE, "kani-target")


class Lock:
    def __enter__(self):
        os.makedirs(CACHE, exist_ok=True)
        self.fh = open(os.path.join(CACHE, "lock"), "w")
        fcntl.flock(self.fh, fcntl.LOCK_EX)
        return self

    def __exit__(self, *a):
        fcntl.flock(self.fh, fcntl.LOCK_UN)
        self.fh.close()


def clean_crate_artifacts():
    """dependencies stay cached; the artefacts of the crate under verification are removed"""
    for d in glob.glob(os.path.join(target_dir(), "kani", "*", "debug", "build", "cosmian_cover_crypt")):
        shutil.rmtree(d, ignore_errors=True)
    for pat in ["deps/*cosmian_cover_crypt*", ".fingerprint/cosmian_cover_crypt*", "incremental/cosmian_cover_crypt*"]:
        for d in glob.glob(os.path.join(target_dir(), "kani", "*", "debug", pat)):
            if os.path.isdir(d):
                shutil.rmtree(d, ignore_errors=True)
            else:
                try:
                    os.remove(d)
                except OSError:
                    pass


def run_kani(scratch, obls, jobs, mem_gb, harness_timeout, extra=None, tag="run"):
    out_json = os.path.join(scratch, "kani-%s.json" % tag)
    logfile = os.path.join(scratch, "kani-%s.log" % tag)
    cmd = ["cargo", "kani"] + KANI_FLAGS + ["--target-dir", target_dir(), "--exact"]
    for o in obls:
        cmd += ["--harness", o["harness"]]
    cmd += ["--output-format", "terse", "--export-json", out_json, "--harness-timeout", "%ds" % harness_timeout]
    if jobs > 1:
        cmd += ["-j", str(jobs)]
    if extra:
        cmd += extra
    overall = harness_timeout * (1 + (len(obls) + jobs - 1) // jobs) + 900
    t0 = time.time()
    rc = run_limited(cmd, os.path.join(scratch, "repo"), kani_env(mem_gb), mem_gb, overall, logfile)
    wall = time.time() - t0
    data = None
    if os.path.exists(out_json):
        try:
            data = json.load(open(out_json))
        except Exception:
            data = None
    return rc, wall, data, logfile, " ".join(cmd)


MODEL_NOISE = {"free called for stack-allocated object"}
def run_pipe(scratch, obls, jobs, mem_gb, harness_timeout):
    """codegen once, then one CBMC process per harness (tools/kpipe.py)"""
    import kpipe
    logfile = os.path.join(scratch, "kani-codegen.log")
    names = [o["harness"] for o in obls]
    rc, meta, cmd, wall = kpipe.codegen(os.path.join(scratch, "repo"), target_dir(), names, KANI_FLAGS, kani_env(mem_gb), logfile)
    if rc != 0 or not meta:
        return None, logfile, cmd
    for o in obls:
        if o.get("loops") and o["harness"] in meta:
            meta[o["harness"]]["verif_loops"] = o["loops"]
    raw = kpipe.run_all(meta, names, os.path.join(scratch, "work"), jobs, mem_gb, harness_timeout)
    res = {}
    for n in names:
        r = raw.get(n)
        if r is None:
            continue
        fails, inconcl, covers_bad, covers, noise, nchecks = [], [], [], 0, [], 0
        for c in r.get("checks", []):
            kind, ok, desc, loc = c["kind"], c["ok"], c.get("description") or "", c.get("location") or {}
            desc = re.sub(r"^\[KANI_CHECK_ID_[^\]]*\]\s*", "", desc)
            if kind == "reach":
                continue
            if kind == "cover":
                covers += 1
                if not ok:
                    covers_bad.append(desc)
                continue
            nchecks += 1
            if ok:
                continue
            where = "%s (%s:%s)" % (loc.get("function"), os.path.basename(loc.get("file") or "?"), loc.get("line"))
            if kind == "unwind":
                inconcl.append("unwinding bound too small: %s in %s" % (desc, where))
            elif kind == "unsupported" and "pointer to unallocated memory" in desc:
                # Kani's same_allocation model cannot reason about pointers CBMC believes unallocated.  Safe Rust (no unsafe
                # in /repo, std trusted) never does pointer arithmetic on unallocated memory, so these paths are artefacts of
                # CBMC's pointer abstraction; Kani assumes them away after the check.  Accepted as model noise ONLY when the
                # obligation carries reachability covers and all of them are satisfied (vacuity guard, checked below).
                noise.append("UNALLOCATED-POINTER-MODEL: " + desc)
            elif kind == "unsupported":
                inconcl.append("unsupported construct reachable: %s in %s" % (desc, where))
            elif os.path.basename(loc.get("file") or "") == "kani_lib.c" or desc in MODEL_NOISE or (
                    kind in ("safety_check", "precondition_instance") and ("/rustlib/src/rust/library/" in (loc.get("file") or "") or (loc.get("file") or "").startswith("library/kani"))):
                # memory-model checks inside Kani's allocator model or inside the (trusted) standard library's unsafe code:
                # /repo has no unsafe code, so these cannot be caused by it; CBMC's pointer abstraction cannot always discharge them
                noise.append(desc)
            elif desc.startswith("BOUND:") or '"BOUND:' in desc:
                inconcl.append("capacity of a substituted container exceeded: %s in %s" % (desc, where))
            else:
                m = PROP_RE.match(desc)
                fails.append({"props": m.group(1).split("/") if m else None, "description": desc, "location": loc, "category": kind})
        st = r["status"]
        if any(x.startswith("UNALLOCATED-POINTER-MODEL") for x in noise) and (covers == 0 or covers_bad):
            inconcl.append("paths were cut by Kani's unallocated-pointer model and the obligation has no (or unsatisfied) reachability covers")
        broken = [x for x in inconcl if x.startswith("unsupported construct reachable") or x.startswith("paths were cut by Kani's unallocated-pointer model")]
        unreliable = []
        if broken and fails:
            # CBMC's model of this harness broke down (a construct Kani does not support is reachable, or paths were cut by the
            # unallocated-pointer model without a satisfied cover): values along those paths are unconstrained and EVERY clause
            # fails at once (contract clauses, std-internal checks).  A tool limit, never a verdict on the property.
            unreliable, fails = fails, []
            inconcl.append("%d failed clause(s) are not reported as violations: the verifier's model of this harness broke down (see the reasons above)" % len(unreliable))
        if st == "Failure" and not fails and not inconcl:
            st = "Success"  # only allocator-model noise failed
        if st in ("Timeout", "OutOfMemory", "Error"):
            inconcl.append("%s: %s" % (st, r.get("error") or "resource limit (%ds, %dGB)" % (harness_timeout, mem_gb)))
        res[n] = {"status": st, "duration_ms": r.get("duration_ms"), "fails": fails, "inconclusive": inconcl, "covers": covers,
                  "covers_unsatisfied": covers_bad, "checks": nchecks, "stats": r.get("stats") or {}, "model_noise": sorted(set(noise)), "unreliable_fails": [f["description"] for f in unreliable][:20],
                  "nooped_drop_glue": r.get("nooped_drop_glue"), "error": {"error_type": r.get("error")}, "cbmc_cmd": r.get("cbmc_cmd")}
    return res, logfile, cmd


PROP_RE = re.compile(r'^"?((?:C\d{2,3})(?:/C\d{2,3})*):')


def classify_check(c):
    """-> ('fail', props or None) | ('inconclusive', why) | None"""
    st = (c.get("status") or "").lower()
    desc = c.get("description") or ""
    cat = (c.get("category") or c.get("property_class") or "").lower()
    if cat == "cover" or "cover" in cat:
        return None
    if st in ("success", "unreachable", "satisfied", "covered"):
        return None
    if "unwinding assertion" in desc or cat in ("unwind",):
        loc = c.get("location") or {}
        return ("inconclusive", "unwinding bound too small: %s in %s (%s:%s)" % (desc, c.get("function"), os.path.basename(loc.get("file") or "?"), loc.get("line")))
    if st in ("undetermined", "solver_error", "solvererror"):
        return ("inconclusive", "undetermined: " + desc)
    loc = c.get("location") or {}
    if st in ("failure", "undetermined") and (os.path.basename(loc.get("file") or "") == "kani_lib.c" or desc in MODEL_NOISE):
        # checks of Kani's allocator model (kani_lib.c): /repo contains no unsafe code, so safe Rust cannot
        # violate them; CBMC's pointer abstraction sometimes cannot discharge them.  Not a property clause.
        return ("noise", desc)
    if st == "failure":
        m = PROP_RE.match(desc)
        if m:
            return ("fail", m.group(1).split("/"))
        if cat in ("unsupported_construct", "unsupported", "reachability_check") or "is not currently supported" in desc:
            return ("inconclusive", "unsupported construct: " + desc)
        return ("fail", None)
    return None


def _has_error_exit(e):
    """true when the harness did not run to completion (timeout, out of memory, crash)"""
    return (e.get("exit_status") or "") not in ("", "properties_failed", "success") and e.get("error_type") not in (None, "assertion_failure")


def summarize(data, obls):
    """per harness: status, failed checks, covers, stats"""
    res = {}
    if not data:
        return res
    stats = {c["harness_id"]: (c.get("cbmc_stats") or {}) for c in data.get("cbmc", [])}
    errs = {e["harness_id"]: e for e in data.get("error_details", [])}
    pds = {p["harness_id"]: p.get("property_details", {}) for p in data.get("property_details", [])}
    for r in data.get("verification_results", {}).get("results", []):
        hid = r["harness_id"]
        fails, inconcl, covers_bad, covers, noise = [], [], [], 0, []
        nchecks = 0
        for c in r.get("checks", []):
            cat = (c.get("category") or "").lower()
            if "cover" in cat:
                covers += 1
                if (c.get("status") or "").lower() not in ("satisfied", "covered", "success"):
                    covers_bad.append(c.get("description"))
                continue
            nchecks += 1
            k = classify_check(c)
            if k is None:
                continue
            if k[0] == "noise":
                noise.append(k[1])
                continue
            if k[0] == "fail":
                fails.append({"props": k[1], "description": c.get("description"), "location": c.get("location"), "category": c.get("category")})
            else:
                inconcl.append(k[1])
        res[hid] = {
            "status": ("Success" if (r.get("status") != "Success" and noise and not fails and not inconcl and nchecks > 0 and not _has_error_exit(errs.get(hid, {}))) else r.get("status")),
            "kani_status": r.get("status"), "model_noise": sorted(set(noise)), "duration_ms": r.get("duration_ms"), "fails": fails, "inconclusive": inconcl,
            "covers": covers, "covers_unsatisfied": covers_bad, "checks": nchecks,
            "stats": stats.get(hid, {}), "error": errs.get(hid, {}), "property_details": pds.get(hid, {}),
        }
    return res


def parse_playback(logtext):
    """extract the concrete values printed by --concrete-playback=print"""
    tests = re.findall(r"```\n(.*?)```", logtext, re.S)
    out = []
    for t in tests:
        m = re.search(r"fn (kani_concrete_playback_\w+)\(\)", t)
        vals = re.findall(r"//\s*(.*?)\n\s*vec!\[([0-9, ]*)\]", t)
        out.append({"test": m.group(1) if m else None, "source": t,
                    "values": [{"as_text": a.strip(), "bytes": [int(x) for x in b.split(",") if x.strip()]} for a, b in vals]})
    return out


def native_playback(scratch, obl, pb):
    """Runs the counterexample natively (cargo kani playback): the harness body,
    hence the real function under contract, is executed on the concrete values.
    Stubs are not applied by Kani's playback, so harnesses that go through the
    hash stubs may diverge; then the replay is reported as not reproduced."""
    repo = os.path.join(scratch, "repo")
    # 1. the repository's own unit tests do not type-check under cfg(kani): gate them off
    for root, _, files in os.walk(os.path.join(repo, "src")):
        for f in files:
            if f.endswith(".rs"):
                p = os.path.join(root, f)
                s = open(p).read()
                s2 = s.replace("#[cfg(test)]", "#[cfg(all(test, not(kani)))]").replace("#[cfg(any(test, feature = \"test-utils\"))]", "#[cfg(any(all(test, not(kani)), feature = \"test-utils\"))]")
                s2 = re.sub(r"(\n\s*)#\[test\]", r"\1#[cfg(not(kani))]\1#[test]", s2)
                if s2 != s:
                    open(p, "w").write(s2)
    # 2. append the playback test to the harness file
    hfile = os.path.join(repo, "src", os.path.relpath(obl["file"], "overlay/src"))
    body = pb["source"]
    body = re.sub(r"fn kani_concrete_playback_\w+\(\)", "fn verif_playback_case()", body)
    with open(hfile, "a") as fh:
        fh.write("\n#[cfg(test)]\nmod verif_playback {\n    use super::*;\n" + body + "\n}\n")
    env = kani_env(8)
    env["CARGO_TARGET_DIR"] = os.path.join(CACHE, "playback-target")
    logfile = os.path.join(scratch, "playback-%s.log" % obl["name"])
    cmd = ["cargo", "kani", "playback", "-Z", "concrete-playback", "--no-default-features", "--", "verif_playback_case", "--nocapture"]
    rc = run_limited(cmd, repo, env, 16, 1500, logfile)
    text = open(logfile, errors="replace").read()
    panicked = re.findall(r"panicked at ([^\n]*)\n([^\n]*)", text)
    return {"cmd": " ".join(cmd), "exit": rc, "panics": [" ".join(p) for p in panicked][:5],
            "ran": "test result:" in text, "tail": text[-1500:]}


# ---------------------------------------------------------------------------
# native bounded contract checks
# ---------------------------------------------------------------------------

def run_native(scratch, obls, tier):
    """Injects the `verif_native` child modules into a plain copy of /repo and runs the selected tests natively
    (real std collections, real cryptography).  Returns name -> result."""
    nrepo = os.path.join(scratch, "native-repo")
    subprocess.run(["rsync", "-a", "--delete", "--exclude", "/target", "--exclude", "/.git", REPO.rstrip("/") + "/", nrepo + "/"], check=True)
    nbase = os.path.join(VERIF, "native", "src")
    for root, _, files in os.walk(nbase):
        for f in files:
            if f != "verif_native.rs":
                continue
            rel = os.path.relpath(os.path.join(root, f), nbase)          # e.g. core/verif_native.rs
            owner_dir = os.path.dirname(rel)                               # core   (or abe_policy/access_structure)
            cand = [os.path.join(nrepo, "src", owner_dir + ".rs"), os.path.join(nrepo, "src", owner_dir, "mod.rs")]
            if owner_dir == "":
                cand = [os.path.join(nrepo, "src", "lib.rs")]
            owner = next((c for c in cand if os.path.exists(c)), None)
            if owner is None:
                return {o["name"]: {"status": "missing", "reason": "lost anchor file for %s" % rel} for o in obls}, "none"
            dst = os.path.join(nrepo, "src", rel)
            os.makedirs(os.path.dirname(dst), exist_ok=True)
            shutil.copy(os.path.join(root, f), dst)
            with open(owner, "a") as fh:
                fh.write("\n#[cfg(test)]\nmod verif_native;\n")
    env = dict(os.environ)
    env["CARGO_NET_OFFLINE"] = "true"
    env["CARGO_TARGET_DIR"] = os.path.join(CACHE, "native-target")
    env["VERIF_TIER"] = tier
    env["RUST_BACKTRACE"] = "0"
    res = {}
    cmd = ["cargo", "test", "--offline", "--lib", "--release", "--"] + [o["harness"] for o in obls] + ["--exact", "--show-output", "--test-threads", os.environ.get("VERIF_JOBS", "8")]
    logfile = os.path.join(scratch, "native.log")
    t0 = time.time()
    with open(logfile, "w") as fh:
        try:
            p = subprocess.run(cmd, cwd=nrepo, env=env, stdout=fh, stderr=subprocess.STDOUT, timeout=int(os.environ.get("VERIF_NATIVE_TIMEOUT", "3000")))
            rc = p.returncode
        except subprocess.TimeoutExpired:
            rc = -9
    wall = time.time() - t0
    text = open(logfile, errors="replace").read()
    built = "running " in text
    for o in obls:
        m = re.search(r"^test " + re.escape(o["harness"]) + r" \.\.\. (\w+)", text, re.M)
        st = m.group(1) if m else None
        r = {"status": "missing", "fails": [], "inconclusive": [], "checks": 0, "covers": 0, "covers_unsatisfied": [], "stats": {}, "wall_s": round(wall, 1)}
        if st == "ok":
            r["status"] = "Success"
            r["checks"] = 1
            mm = re.search(r"VERIF-COUNT " + re.escape(o["name"]) + r" (\d+)", text)
            if mm:
                r["checks"] = int(mm.group(1))
        elif st == "FAILED":
            r["status"] = "Failure"
            sec = re.search(r"---- " + re.escape(o["harness"]) + r" stdout ----\n(.*?)(?=\n---- |\nfailures:)", text, re.S)
            body = sec.group(1) if sec else ""
            msgs = re.findall(r"panicked at [^\n]*:\n([^\n]*(?:\n(?!note:|stack backtrace)[^\n]+)*)", body)
            msg = (msgs[0] if msgs else body[-400:]).strip()
            pm = PROP_RE.match(msg)
            r["fails"] = [{"props": pm.group(1).split("/") if pm else None, "description": msg[:600], "location": {"file": o["file"]}, "category": "native"}]
            # non-fail-fast checks print one `VERIF-FAIL <message>` line per failing clause label
            soft = [x.strip() for x in re.findall(r"^VERIF-FAIL (.*)$", body, re.M)]
            for x in soft:
                if x[:600] == msg[:600]:
                    continue
                xm = PROP_RE.match(x)
                r["fails"].append({"props": xm.group(1).split("/") if xm else None, "description": x[:600], "location": {"file": o["file"]}, "category": "native"})
            r["soft_done"] = "VERIF-SOFT-DONE" in body
            r["native"] = {"ran": True, "panics": [f["description"] for f in r["fails"]], "all_clauses_evaluated": r["soft_done"], "cmd": " ".join(cmd)}
            r["playback"] = [{"test": o["harness"], "source": "native bounded check: the failing input is printed in the panic message", "values": []}]
        else:
            if not built:
                r["inconclusive"] = ["native test binary did not build or crashed before running (rc=%s): %s" % (rc, text[-600:])]
            elif rc != 0 and "test result" not in text:
                # the test process died (abort / stack overflow): attribute to every test that did not report
                r["status"] = "Failure"
                r["fails"] = [{"props": None, "description": "the test process aborted (allocation failure, stack overflow or abort) while this check was running: " + text[-300:], "location": {"file": o["file"]}, "category": "native"}]
                r["native"] = {"ran": True, "panics": [text[-300:]], "cmd": " ".join(cmd)}
            else:
                r["inconclusive"] = ["test not found in the output (lost anchor?)"]
        res[o["name"]] = r
    return res, " ".join(cmd)


# ---------------------------------------------------------------------------
# verus
# ---------------------------------------------------------------------------

def run_verus(scratch, obls):
    """delegates to tools/verus_run.py (mechanical extraction + verus)"""
    if not obls:
        return {}
    import verus_run
    return verus_run.run(scratch, obls, REPO)


# ---------------------------------------------------------------------------
# main
# ---------------------------------------------------------------------------

def sha_file(p):
    return hashlib.sha256(open(p, "rb").read()).hexdigest()[:16]


def main(argv):
    if not argv or argv[0].startswith("-"):
        print(__doc__ or "usage: check <Cnn> [--tier quick|thorough]")
        return 2
    if argv[0] == "setup":
        return setup()
    if argv[0] == "dev":
        return dev(argv[1:])
    if argv[0] == "ndev":
        pats = argv[1].split(",")
        obls = [o for o in load_registry() if o["engine"] == "native" and any(p in o["name"] for p in pats)]
        sc = Scratch("--keep" in argv)
        try:
            res, cmd = run_native(sc.dir, obls, os.environ.get("VERIF_TIER", "quick"))
            for o in obls:
                r = res[o["name"]]
                print("%-50s %-8s wall=%ss count=%s" % (o["name"], r["status"], r.get("wall_s"), r.get("checks")))
                for f in r["fails"]:
                    print("     FAIL " + f["description"][:700])
                for i_ in r["inconclusive"]:
                    print("     INCONCLUSIVE " + i_[-1500:])
            return 0
        finally:
            sc.cleanup()
    prop = argv[0]
    tier = os.environ.get("VERIF_TIER", "quick")
    keep = "--keep" in argv
    if "--tier" in argv:
        tier = argv[argv.index("--tier") + 1]
    only = None
    if "--only" in argv:
        only = argv[argv.index("--only") + 1].split(",")
    if "--replay" in argv:
        return replay(argv[argv.index("--replay") + 1])
    seed = int(os.environ.get("VERIF_SEED", "0") or 0)
    t_start = time.time()
    registry = load_registry()
    obls = [o for o in registry if prop in o["props"] and (tier == "thorough" or o["tier"] == "quick")]
    if only:
        obls = [o for o in obls if o["name"] in only]
    if not obls:
        log("no obligation registered for %s" % prop)
        return 2
    # the only random choice: the order in which obligations are scheduled
    import random
    random.Random(seed).shuffle(obls)
    known = load_known()
    kani_obls = [o for o in obls if o["engine"] == "kani"]
    verus_obls = [o for o in obls if o["engine"] == "verus"]
    scratch = Scratch(keep)
    jobs = int(os.environ.get("VERIF_JOBS", "6"))
    mem_gb = int(os.environ.get("VERIF_MEM_GB", "9" if tier == "quick" else "14"))
    htimeout = int(os.environ.get("VERIF_HARNESS_TIMEOUT", "900" if tier == "quick" else "3600"))
    violations, known_hits, inconclusive = [], [], []
    results = {}
    report = None
    checker_cmds = []
    try:
        report = build_overlay(scratch.dir)
        if report is None:
            log("overlay failed")
            return finish(prop, tier, seed, t_start, obls, {}, [], [], ["overlay injection failed"], report, checker_cmds, 2)
        if report.get("missing_anchor_files"):
            inconclusive.append("lost anchor files: %s" % report["missing_anchor_files"])
        if kani_obls:
            with Lock():
                summ, logfile, cmd = run_pipe(scratch.dir, kani_obls, jobs, mem_gb, htimeout)
                checker_cmds.append(cmd + " ; then per harness: goto-cc, goto-instrument (kani-driver's steps + no-op drop glue of CryptoCoreError/io::Error), cbmc " + " ".join(__import__("kpipe").CBMC_FLAGS) + " --unwind <n> <harness>.out --json-ui")
                data = summ
                if summ is None:
                    tail = open(logfile, errors="replace").read()
                    errs = re.findall(r"(error(?:\[E\d+\])?:[^\n]*\n(?:[^\n]*\n){0,8})", tail)
                    log("".join(errs[:5])[-4000:] if errs else tail[-3000:])
                    inconclusive.append("kani codegen produced no harness (build error in the overlay: lost anchor or changed signature?)")
                    summ = {}
                for o in kani_obls:
                    s = summ.get(o["harness"])
                    if s is None:
                        if data is not None:
                            inconclusive.append("%s: no result (lost anchor?)" % o["name"])
                        results[o["name"]] = {"status": "missing"}
                        continue
                    results[o["name"]] = s
                # second pass: counterexamples for failed obligations
                failed = [o for o in kani_obls if results.get(o["name"], {}).get("fails")]
                if os.environ.get("VERIF_NO_PLAYBACK") == "1":
                    failed = []
                seen_desc = set()
                n_pb = 0
                for o in failed:
                    rel = [f for f in results[o["name"]]["fails"] if f["props"] is None or prop in f["props"]]
                    if not rel:
                        continue
                    if all(match_known(known, prop, o, f) for f in rel):
                        continue
                    # one counterexample per distinct failed clause, at most two per run
                    descs = frozenset(f.get("description") for f in rel)
                    if descs <= seen_desc or n_pb >= 2:
                        continue
                    seen_desc |= descs
                    n_pb += 1
                    rc2, wall2, data2, log2, cmd2 = run_kani(scratch.dir, [o], 1, max(mem_gb, 14), htimeout * 2,
                                                             extra=["-Z", "concrete-playback", "--concrete-playback=print"], tag="pb-" + o["name"])
                    pbs = parse_playback(open(log2, errors="replace").read())
                    results[o["name"]]["playback"] = pbs
                    if pbs and os.environ.get("VERIF_NO_NATIVE_REPLAY") != "1":
                        try:
                            results[o["name"]]["native"] = native_playback(scratch.dir, o, pbs[0])
                        except Exception as e:  # noqa
                            results[o["name"]]["native"] = {"error": repr(e)}
                clean_crate_artifacts()
        native_obls = [o for o in obls if o["engine"] == "native"]
        if native_obls:
            with Lock():
                nres, ncmd = run_native(scratch.dir, native_obls, tier)
            checker_cmds.append(ncmd)
            for o in native_obls:
                results[o["name"]] = nres.get(o["name"], {"status": "missing"})
        if verus_obls:
            vres = run_verus(scratch.dir, verus_obls)
            for o in verus_obls:
                results[o["name"]] = vres.get(o["name"], {"status": "missing"})
            checker_cmds.append(vres.get("__cmd__", "verus <extracted file> --output-json --time"))
        # verdicts
        for o in obls:
            r = results.get(o["name"], {})
            st = r.get("status")
            if st == "Success" or st == "verified":
                if r.get("covers_unsatisfied"):
                    inconclusive.append("%s: vacuity guard failed, cover not satisfied: %s" % (o["name"], r["covers_unsatisfied"]))
                if o["engine"] == "kani" and r.get("checks", 0) == 0:
                    inconclusive.append("%s: zero checks generated" % o["name"])
                continue
            fails = r.get("fails") or []
            rel = [f for f in fails if f["props"] is None or prop in f["props"]]
            other = [f for f in fails if not (f["props"] is None or prop in f["props"])]
            if rel:
                for f in rel:
                    kf = match_known(known, prop, o, f)
                    if kf:
                        known_hits.append((o, f, kf))
                    else:
                        violations.append((o, f, r))
            elif other:
                # a clause of another property failed in a shared harness: not this property's business,
                # but clauses placed after it in the harness were not decided
                r["note"] = "failed clause(s) belong to other properties: %s" % sorted(set(sum([f["props"] for f in other], [])))
                if o["engine"] == "native" and not r.get("soft_done"):
                    # the native test stopped (hard panic) before its last clause: this property's clauses after that point are undecided
                    inconclusive.append("%s: stopped on a clause of another property (%s) before every clause of %s was evaluated" % (o["name"], other[0]["description"][:120], prop))
            elif st == "missing":
                # no result for this obligation (the harness did not build or did not run): never a pass
                msg = "%s: no result (%s)" % (o["name"], str(r.get("reason") or (r.get("inconclusive") or ["harness did not build or run: lost anchor or changed signature?"])[0])[:200])
                whole_build_failed = o["engine"] == "kani" and any("kani codegen produced no harness" in i for i in inconclusive)
                if not whole_build_failed and not any(i.startswith(o["name"] + ":") for i in inconclusive):
                    inconclusive.append(msg)
            else:
                why = r.get("inconclusive") or [r.get("error", {}).get("error_type") or r.get("reason") or "no failed check reported (timeout / out of memory / tool failure)"]
                inconclusive.append("%s: %s" % (o["name"], "; ".join(map(str, why))[:300]))
        code = 0
        if violations:
            code = 1
        elif inconclusive:
            code = 2
        return finish(prop, tier, seed, t_start, obls, results, violations, known_hits, inconclusive, report, checker_cmds, code)
    finally:
        scratch.cleanup()


def match_known(known, prop, o, f):
    for k in known.get("known", []):
        if k.get("property") != prop:
            continue
        if k.get("obligation") and k["obligation"] != o["name"]:
            continue
        if k.get("check") and k["check"] not in (f.get("description") or ""):
            continue
        return k
    return None


def finish(prop, tier, seed, t_start, obls, results, violations, known_hits, inconclusive, report, checker_cmds, code):
    wall = time.time() - t_start
    evdir = os.environ.get("VERIF_EVIDENCE_DIR") or os.path.join(VERIF, "evidence")
    os.makedirs(evdir, exist_ok=True)
    os.makedirs(os.path.join(VERIF, "replays"), exist_ok=True)
    discharged = [o for o in obls if results.get(o["name"], {}).get("status") in ("Success", "verified")]
    n_proved = len([o for o in discharged if o["class"] == "proved"])
    n_bounded = len([o for o in discharged if o["class"] != "proved"])
    all_proved = len(discharged) == len(obls) and n_bounded == 0 and obls
    # VIOLATION lines
    seen = set()
    for (o, f, r) in violations:
        key = (o["name"], f.get("description"))
        if key in seen:
            continue
        seen.add(key)
        h = hashlib.sha256((o["name"] + (f.get("description") or "")).encode()).hexdigest()[:10]
        path = os.path.join(VERIF, "replays", "%s-%s-%s.json" % (prop, o["name"], h))
        native = r.get("native") or {}
        desc = (f.get("description") or "").strip('"')
        reproduced = bool(native.get("ran")) and any(desc[:60] in p for p in native.get("panics", []))
        if o["engine"] == "native":
            reproduced = True  # the check itself executed the real code on the failing input
        rep = {
            "property": prop, "obligation": o["name"], "harness": o.get("harness"), "engine": o["engine"],
            "function_under_contract": o.get("fn"), "shape": o.get("shape"), "class": o["class"],
            "failed_check": f, "counterexample": r.get("playback"), "native_replay": native,
            "replayed_on_real_code": reproduced, "verifier_output": r.get("verifier_output"),
            "how_to_replay": "bin/check %s --replay %s" % (prop, path),
        }
        json.dump(rep, open(path, "w"), indent=1)
        print("VIOLATION property=%s replay=%s%s" % (prop, path, "" if reproduced else " no-failing-input-found"))
        print("  obligation %s failed: %s" % (o["name"], f.get("description")))
    for (o, f, kf) in known_hits:
        print("KNOWN-FINDING: property=%s %s [obligation %s: %s]" % (prop, kf.get("what"), o["name"], (f.get("description") or "").strip('"')))
    for i in inconclusive:
        print("INCONCLUSIVE: " + i)
    samples = []
    for o in obls[:]:
        r = results.get(o["name"], {})
        samples.append({
            "obligation": o["name"], "engine": o["engine"], "function": o.get("fn"), "shape": o.get("shape"),
            "class": o["class"], "status": r.get("status"), "checks": r.get("checks"),
            "solver_s": (r.get("stats") or {}).get("runtime_solver_s"), "symex_s": (r.get("stats") or {}).get("runtime_symex_s"),
            "wall_s": (r.get("duration_ms") or 0) / 1000.0 if r.get("duration_ms") else r.get("wall_s"),
            "covers": r.get("covers"), "note": r.get("note"),
        })
    fns = sorted(set(o.get("fn") for o in obls if o.get("fn")))
    backends = sorted(set({"kani": "CBMC 6.11 + CaDiCaL (via Kani 0.68)", "verus": "Verus 0.2026.09.13 + Z3", "native": "native bounded enumeration (rustc, real crypto; bounded stand-in, not a proof)"}[o["engine"]] for o in obls))
    total_checks = sum((results.get(o["name"], {}).get("checks") or 0) for o in obls)
    solver_time = sum(((results.get(o["name"], {}).get("stats") or {}).get("runtime_solver_s") or 0) for o in obls)
    level = "proof" if all_proved else "other"
    expl = ("%d obligations (one per contract clause set and shape) generated from /repo's current source; %d discharged "
            "(%d proved = loop-free or full-domain, %d bounded = symbolic values on the stated shape with unwinding assertions on); "
            "%d elementary checks inside them; back ends: %s. A bounded obligation is a bounded stand-in, not a proof."
            % (len(obls), len(discharged), n_proved, n_bounded, total_checks, ", ".join(backends)))
    ev = {
        "property_id": prop, "tier": tier, "seed": seed, "level": level,
        "coverage": {
            "obligations": len(obls), "discharged": len(discharged),
            "proved": n_proved, "bounded": n_bounded,
            "checker_cmd": " ; ".join(checker_cmds) if checker_cmds else "none",
            "trusted_base": TRUSTED_BASE,
            "explanation": expl,
            "functions_under_contract": fns,
            "backends": backends,
            "elementary_checks": total_checks,
            "solver_time_s": round(solver_time, 2),
            "samples": samples,
            "evaluations": len(obls), "distinct_nontrivial": len(discharged),
            "rule": "one evaluation = one obligation (harness or Verus function); non-trivial = discharged with at least one elementary check and all vacuity covers satisfied",
            "overlay": {k: report[k] for k in ("rewritten_uses", "appended", "repo_src_sha256")} if report else None,
            "inconclusive": inconclusive,
            "known_findings_hit": [kf.get("id") for (_, _, kf) in known_hits],
        },
        "assumptions": TRUSTED_BASE,
        "wall_s": round(wall, 1),
        "violations": len(seen),
    }
    json.dump(ev, open(os.path.join(evdir, "%s.json" % prop), "w"), indent=1)
    print("%s tier=%s obligations=%d discharged=%d (proved %d, bounded %d) violations=%d known=%d inconclusive=%d wall=%.0fs"
          % (prop, tier, len(obls), len(discharged), n_proved, n_bounded, len(seen), len(known_hits), len(inconclusive), wall))
    return code


def replay(path):
    rep = json.load(open(path))
    print(json.dumps({k: rep[k] for k in ("property", "obligation", "failed_check", "replayed_on_real_code")}, indent=1))
    print("re-running obligation %s on the current tree" % rep["obligation"])
    return main([rep["property"], "--only", rep["obligation"], "--tier", "thorough"])


def setup():
    """pre-builds the dependencies for the Kani toolchain into the cache (the crate itself is rebuilt on every run)"""
    registry = load_registry()
    kani_obls = [o for o in registry if o["engine"] == "kani"][:1]
    scratch = Scratch()
    try:
        if build_overlay(scratch.dir) is None:
            return 2
        with Lock():
            cmd = ["cargo", "kani"] + KANI_FLAGS + ["--target-dir", target_dir(), "--only-codegen", "--exact"]
            for o in kani_obls:
                cmd += ["--harness", o["harness"]]
            rc = run_limited(cmd, os.path.join(scratch.dir, "repo"), kani_env(16), 16, 3600, os.path.join(scratch.dir, "setup.log"))
            if rc != 0:
                log(open(os.path.join(scratch.dir, "setup.log"), errors="replace").read()[-3000:])
            clean_crate_artifacts()
        return 0 if rc == 0 else 2
    finally:
        scratch.cleanup()


def dev(argv):
    """developer mode: run the named obligations (substring match, comma separated) and print one line each"""
    pats = argv[0].split(",")
    registry = load_registry()
    obls = [o for o in registry if o["engine"] == "kani" and any(p in o["name"] for p in pats)]
    # unregistered scratch harnesses (`fn probe_*`) can be run too
    base = os.path.join(VERIF, "overlay", "src")
    for root, _, files in os.walk(base):
        for f in files:
            if f.endswith(".rs"):
                rel = os.path.relpath(os.path.join(root, f), base)
                for m in re.finditer(r"fn (probe_\w+)\(\)", open(os.path.join(root, f)).read()):
                    if any(p in m.group(1) for p in pats):
                        obls.append({"name": m.group(1), "harness": module_path(rel) + "::" + m.group(1), "engine": "kani", "props": [], "class": "bounded", "loops": os.environ.get("VERIF_PROBE_LOOPS")})
    jobs = int(os.environ.get("VERIF_JOBS", "8"))
    mem_gb = int(os.environ.get("VERIF_MEM_GB", "8"))
    htimeout = int(os.environ.get("VERIF_HARNESS_TIMEOUT", "600"))
    scratch = Scratch("--keep" in argv)
    try:
        if build_overlay(scratch.dir) is None:
            return 2
        t0 = time.time()
        with Lock():
            summ, logfile, cmd = run_pipe(scratch.dir, obls, jobs, mem_gb, htimeout)
        wall = time.time() - t0
        if summ is None:
            text = open(logfile, errors="replace").read()
            errs = re.findall(r"(error(?:\[E\d+\])?:[^\n]*\n(?:[^\n]*\n){0,12})", text)
            print("NO RESULT")
            print("".join(errs[:6])[-6000:] if errs else text[-3000:])
            return 2
        for o in obls:
            s_ = summ.get(o["harness"])
            if not s_:
                print("%-45s MISSING" % o["name"])
                continue
            st = s_["stats"] or {}
            print("%-45s %-8s wall=%5.0fs symex=%5.0fs solver=%5.0fs checks=%d covers_bad=%s" % (
                o["name"], s_["status"], (s_["duration_ms"] or 0) / 1000, st.get("runtime_symex_s") or 0, st.get("runtime_solver_s") or 0,
                s_["checks"], s_["covers_unsatisfied"]) + (" noise=%s" % s_["model_noise"] if s_.get("model_noise") else ""))
            for f in s_["fails"][:6]:
                print("     FAIL %s @ %s:%s" % (f["description"], (f["location"] or {}).get("file"), (f["location"] or {}).get("line")))
            for i_ in s_["inconclusive"][:3]:
                print("     INCONCLUSIVE %s" % i_[:200])
            if s_["status"] != "Success" and not s_["fails"] and not s_["inconclusive"]:
                print("     ERROR %s" % json.dumps(s_["error"])[:300])
        print("total wall %.0fs" % wall)
        return 0
    finally:
        scratch.cleanup()
