#!/bin/bash
# usage: seedtest.sh <seed-dir-name e.g. C06-1> <property> [more properties]
# 1. confirms the seeded change in its scratch worktree (suite passes, demo fails with / passes without)
# 2. applies it to /repo, runs the quick checks, restores /repo
S=$1; shift
D=/verif/seeded/$S
P=${S%%-*}; LC=$(echo $P | tr 'A-Z' 'a-z')
WT=/tmp/mut/$P
OUT=$D/run.txt
: > $OUT
if [ -d "$WT" ]; then
  cd $WT
  echo "## confirm in $WT" >> $OUT
  (cargo test --workspace --no-fail-fast --offline 2>&1 | grep -E "^test result|^test .*demo_.*(FAILED|ok)" | head -5) >> $OUT
  git apply -R $D/patch.diff && (cargo test --offline --lib demo_$LC 2>&1 | grep -E "^test result" | head -2 | sed 's/^/without change: /') >> $OUT
  git apply $D/patch.diff
fi
cd /repo && git status --short | grep -q . && { echo "/repo not clean"; exit 3; }
git -C /repo apply $D/patch.diff || { echo "patch does not apply to /repo" >> $OUT; exit 3; }
for prop in "$@"; do
  echo "## bin/check $prop (with the change applied)" >> $OUT
  (cd /verif && bin/check $prop --tier quick 2>&1 | grep -E "^VIOLATION|^  obligation|^KNOWN|^INCONCLUSIVE|tier=quick" | cut -c1-400) >> $OUT
  echo "exit=$?" >> $OUT
done
git -C /repo checkout -- . ; git -C /repo status --short >> $OUT
cat $OUT
