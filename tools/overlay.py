#!/usr/bin/env python3
"""Build a scratch copy of /repo with the verification overlay injected.

Usage: overlay.py <scratch_dir> [--repo /repo]

What is done to the copy (and never to /repo), exhaustively:
  * every file under /verif/overlay/src is copied to the same relative path
    (new files only: an overlay file may not replace a repository file);
  * the lines listed in APPEND are appended to the END of the named files
    (all of them are `#[cfg(kani)]` items: child harness modules, toy back
    ends, crate-level helper modules);
  * `#![cfg_attr(kani, recursion_limit = "1024")]` is inserted in lib.rs right
    after the crate doc comment;
  * top-level `use std::collections::...` items (flat or nested in
    `use std::{...}`) are duplicated: the original is kept under
    `#[cfg(not(kani))]`, and a copy importing the same names from
    `crate::vcollections` is added under `#[cfg(kani)]`.
No function body, signature, type definition or statement is edited.
The list of rewritten `use` items and of appended lines is written to
<scratch>/overlay_report.json so that the evidence can state it.
"""
import hashlib
import json
import os
import re
import shutil
import subprocess
import sys

VERIF = os.path.dirname(os.path.dirname(os.path.abspath(__file__)))
OVERLAY = os.path.join(VERIF, "overlay", "src")

# file (relative to src/) -> lines appended at the end
APPEND = {
    "lib.rs": [
        "#[cfg(kani)] mod vcollections;",
        "#[cfg(not(kani))] mod vcollections { pub use std::collections::*; }",
        "#[cfg(kani)] mod kani_verif;",
    ],
    "core/nike.rs": [
        "#[cfg(kani)] mod toy;",
        "#[cfg(kani)] pub use toy::Toy as ElGamal;",
        "#[cfg(kani)] pub(crate) fn toy_p() -> u32 { toy::P }",
    ],
    "core/kem.rs": [
        "#[cfg(kani)] mod toy;",
        "#[cfg(kani)] pub use toy::ToyKem as MlKem;",
    ],
    "core/primitives.rs": ["#[cfg(kani)] mod kani_h;"],
    "core/mod.rs": ["#[cfg(kani)] mod kani_h;"],
    "core/serialization/mod.rs": ["#[cfg(kani)] mod kani_h;"],
    "data_struct/revision_map.rs": ["#[cfg(kani)] mod kani_h;"],
    "data_struct/revision_vec.rs": ["#[cfg(kani)] mod kani_h;"],
    "data_struct/dictionary.rs": ["#[cfg(kani)] mod kani_h;"],
    "abe_policy/access_policy.rs": ["#[cfg(kani)] mod kani_h;"],
    "abe_policy/access_structure.rs": ["#[cfg(kani)] mod kani_h;"],
    "abe_policy/dimension.rs": ["#[cfg(kani)] mod kani_h;"],
    "abe_policy/attribute.rs": ["#[cfg(kani)] mod kani_h;"],
    "abe_policy/rights.rs": ["#[cfg(kani)] mod kani_h;"],
    "encrypted_header.rs": ["#[cfg(kani)] mod kani_h;"],
    "ae.rs": ["#[cfg(kani)] mod kani_h;"],
    "ser.rs": ["#[cfg(kani)] mod kani_h;"],
    "api.rs": ["#[cfg(kani)] mod kani_h;"],
}


def split_top_level(s):
    """split a brace-list body on top-level commas"""
    out, depth, cur = [], 0, ""
    for ch in s:
        if ch == "{":
            depth += 1
        elif ch == "}":
            depth -= 1
        if ch == "," and depth == 0:
            out.append(cur)
            cur = ""
        else:
            cur += ch
    if cur.strip():
        out.append(cur)
    return [x.strip() for x in out if x.strip()]


USE_RE = re.compile(r"^use std::(.*?);[ \t]*\n", re.S | re.M)


def rewrite_uses(text, report, relpath):
    """Only column-0 `use std::...;` items are considered (items inside
    `mod tests { ... }` are indented and therefore untouched)."""

    def repl(m):
        body = m.group(1)
        full = m.group(0)
        if body.startswith("collections::"):
            rest = body[len("collections::"):]
            report.append({"file": relpath, "use": " ".join(full.split())})
            return ("#[cfg(not(kani))]\n" + full +
                    "#[cfg(kani)]\nuse crate::vcollections::" + rest + ";\n")
        if body.startswith("{") and body.endswith("}"):
            parts = split_top_level(body[1:-1])
            coll = [p for p in parts if p.startswith("collections::")]
            if not coll:
                return full
            others = [p for p in parts if not p.startswith("collections::")]
            report.append({"file": relpath, "use": " ".join(full.split())})
            out = "#[cfg(not(kani))]\n" + full
            for c in coll:
                out += "#[cfg(kani)]\nuse crate::vcollections::" + c[len("collections::"):] + ";\n"
            if others:
                out += "#[cfg(kani)]\nuse std::{" + ", ".join(others) + "};\n"
            return out
        return full

    return USE_RE.sub(repl, text)


QUAL_RE = re.compile(r"^(?!#|use )(.*?)\bstd::collections::(LinkedList|HashMap|HashSet)\b", re.M)


def rewrite_qualified(text, report, relpath):
    """Fully qualified `std::collections::{LinkedList,HashMap,HashSet}` paths inside
    bodies (one occurrence in revision_map.rs) would not type-check against the
    substituted containers; the path prefix (and nothing else) is switched under
    cfg(kani) by duplicating the enclosing line is not possible inside an
    expression, so the prefix is rewritten to `crate::vcollections::` and
    `vcollections` is also compiled (as a re-export of std) when cfg(kani) is off."""
    def repl(m):
        report.append({"file": relpath, "line": " ".join(m.group(0).split())})
        return m.group(1) + "crate::vcollections::" + m.group(2)
    # only outside `#[cfg(test)] mod tests`: cut the text there
    cut = text.find("#[cfg(test)]\nmod tests")
    head, tail = (text, "") if cut < 0 else (text[:cut], text[cut:])
    return QUAL_RE.sub(repl, head) + tail


def main():
    args = sys.argv[1:]
    repo = "/repo"
    if "--repo" in args:
        i = args.index("--repo")
        repo = args[i + 1]
        del args[i:i + 2]
    scratch = args[0]
    dst = os.path.join(scratch, "repo")
    os.makedirs(dst, exist_ok=True)
    # Sync sources (mtimes preserved so that cargo fingerprints stay valid for
    # unchanged files; --checksum so that content decides, not mtime).
    subprocess.run(["rsync", "-a", "--delete", "--checksum", "--exclude", "/target", "--exclude", "/.git",
                    "--exclude", "/benches", "--exclude", "/examples", "--exclude", "/bib",
                    repo.rstrip("/") + "/", dst + "/.pristine/"], check=True)
    pristine = os.path.join(dst, ".pristine")
    report = {"rewritten_uses": [], "rewritten_paths": [], "appended": {}, "overlay_files": [], "missing_anchor_files": []}
    # regenerate the working copy from the pristine mirror, writing only changed files
    for root, dirs, files in os.walk(pristine):
        rel = os.path.relpath(root, pristine)
        for f in files:
            relf = os.path.normpath(os.path.join(rel, f))
            src = os.path.join(root, f)
            out = os.path.join(dst, relf)
            os.makedirs(os.path.dirname(out), exist_ok=True)
            data = open(src, "rb").read()
            if relf.startswith("src" + os.sep) and relf.endswith(".rs"):
                key = relf[len("src" + os.sep):]
                text = data.decode()
                text = rewrite_uses(text, report["rewritten_uses"], relf)
                text = rewrite_qualified(text, report["rewritten_paths"], relf)
                if key in APPEND:
                    if not text.endswith("\n"):
                        text += "\n"
                    text += "\n" + "\n".join(APPEND[key]) + "\n"
                    report["appended"][relf] = APPEND[key]
                if key == "lib.rs":
                    lines = text.split("\n")
                    i = 0
                    while i < len(lines) and (lines[i].startswith("//!") or not lines[i].strip()):
                        i += 1
                    lines.insert(i, '#![cfg_attr(kani, recursion_limit = "1024")]\n#![cfg_attr(kani, allow(unused, dead_code))]')
                    text = "\n".join(lines)
                data = text.encode()
            if relf == "Cargo.toml":
                # cdylib/staticlib outputs are useless for verification and slow the build
                text = data.decode().replace('crate-type = ["lib", "cdylib", "staticlib"]', 'crate-type = ["lib"]')
                # drop bench/example targets (their sources are not copied)
                text = re.sub(r"\[\[(bench|example)\]\]\n(?:[^\[\n][^\n]*\n)*\n?", "", text)
                text = re.sub(r"\[dev-dependencies\]\n(?:(?!\[)[^\n]*\n)*", "", text)
                data = text.encode()
            if not os.path.exists(out) or open(out, "rb").read() != data:
                with open(out, "wb") as fh:
                    fh.write(data)
    for key in APPEND:
        if not os.path.exists(os.path.join(pristine, "src", key)):
            report["missing_anchor_files"].append(key)
    # remove stale files from working copy (files not in pristine and not overlay)
    overlay_rel = set()
    for root, dirs, files in os.walk(OVERLAY):
        rel = os.path.relpath(root, OVERLAY)
        for f in files:
            relf = os.path.normpath(os.path.join("src", rel, f))
            overlay_rel.add(relf)
            src = os.path.join(root, f)
            out = os.path.join(dst, relf)
            if os.path.exists(os.path.join(pristine, relf)):
                print("overlay file would replace repository file: " + relf, file=sys.stderr)
                sys.exit(2)
            os.makedirs(os.path.dirname(out), exist_ok=True)
            data = open(src, "rb").read()
            if not os.path.exists(out) or open(out, "rb").read() != data:
                with open(out, "wb") as fh:
                    fh.write(data)
            report["overlay_files"].append(relf)
    for root, dirs, files in os.walk(os.path.join(dst, "src")):
        for f in files:
            relf = os.path.relpath(os.path.join(root, f), dst)
            if relf not in overlay_rel and not os.path.exists(os.path.join(pristine, relf)):
                os.remove(os.path.join(dst, relf))
    # every harness child module listed in APPEND must exist, else provide an empty one
    for key, lines in APPEND.items():
        for ln in lines:
            m = re.match(r"#\[cfg\(kani\)\] mod (\w+);", ln)
            if not m or key == "lib.rs":
                continue
            base = os.path.join(dst, "src", os.path.dirname(key))
            stem = os.path.splitext(os.path.basename(key))[0]
            if stem == "mod":
                cand = os.path.join(base, m.group(1) + ".rs")
            else:
                cand = os.path.join(base, stem, m.group(1) + ".rs")
            if not os.path.exists(cand):
                os.makedirs(os.path.dirname(cand), exist_ok=True)
                open(cand, "w").write("// (no harness for this module yet)\n")
    h = hashlib.sha256()
    for root, dirs, files in sorted(os.walk(os.path.join(pristine, "src"))):
        for f in sorted(files):
            h.update(open(os.path.join(root, f), "rb").read())
    report["repo_src_sha256"] = h.hexdigest()
    with open(os.path.join(scratch, "overlay_report.json"), "w") as fh:
        json.dump(report, fh, indent=1)
    os.makedirs(os.path.join(dst, ".cargo"), exist_ok=True)
    with open(os.path.join(dst, ".cargo", "config.toml"), "w") as fh:
        fh.write("[net]\noffline = true\n")


if __name__ == "__main__":
    main()
