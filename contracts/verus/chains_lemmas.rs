// Lemma layer over the key-management contracts (C04, C05, C06).  Spec-level only: the hypotheses are the
// postconditions the Kani obligations discharge on the real functions (rekey__*, prune__*, update_msk__*,
// refresh_chain__*, mpk__*); the lemmas lift them to histories of arbitrary length.  Secrets are
// identified by their generation (a strictly increasing counter: the fresh-draw assumption).
use vstd::prelude::*;
verus! {

// ---------------------------------------------------------------------------------------------
// chains: Seq<int> of generations, newest first (strictly decreasing)
// ---------------------------------------------------------------------------------------------
pub open spec fn decreasing(c: Seq<int>) -> bool {
    forall|i: int, j: int| 0 <= i < j < c.len() ==> c[i] > c[j]
}

/// contract of refresh_coordinate_keys (keep-old): membership in the refreshed chain
pub open spec fn in_refreshed(master: Seq<int>, user: Seq<int>, g: int) -> bool {
    master.contains(g) && (g > user[0] || user.contains(g))
}

/// C05: every secret of a refreshed key is held by the master key (pruned secrets leave the key)
proof fn lemma_refreshed_subset_of_master(master: Seq<int>, user: Seq<int>, g: int)
    requires in_refreshed(master, user, g),
    ensures master.contains(g),
{}

/// C05: a refresh never hands out a secret older than the user's own that the user did not hold
proof fn lemma_no_older_secret_gained(master: Seq<int>, user: Seq<int>, g: int)
    requires in_refreshed(master, user, g), !user.contains(g), user.len() > 0,
    ensures g > user[0],
{}

/// C04: the refreshed key holds the newest master secret (it follows the master key) ...
proof fn lemma_refreshed_holds_master_front(master: Seq<int>, user: Seq<int>)
    requires master.len() > 0, user.len() > 0, decreasing(master),
             // a user key never holds a secret newer than the master's newest
             user[0] <= master[0],
             // and what it holds at generation master[0] is the master's secret
             user[0] == master[0] ==> user.contains(master[0]),
    ensures in_refreshed(master, user, master[0]),
{
    assert(master[0] == master[0int]);
    if user[0] < master[0] {
    } else {
        assert(user.contains(master[0]));
    }
}

/// ... and keeps every old secret the master key still holds (keep-old refresh)
proof fn lemma_refreshed_keeps_shared_secrets(master: Seq<int>, user: Seq<int>, g: int)
    requires master.contains(g), user.contains(g),
    ensures in_refreshed(master, user, g),
{}

/// C04: a key that was not refreshed cannot open an encapsulation made under a secret generated later
proof fn lemma_stale_key_falls_behind(user: Seq<int>, fresh: int)
    requires decreasing(user), forall|i: int| 0 <= i < user.len() ==> user[i] < fresh,
    ensures !user.contains(fresh),
{}

/// contract of rekey on a chain, and of prune
pub open spec fn rekeyed(c: Seq<int>, fresh: int) -> Seq<int> { seq![fresh] + c }
pub open spec fn pruned(c: Seq<int>) -> Seq<int> { c.subrange(0, 1) }

proof fn lemma_rekey_keeps_order_and_old_secrets(c: Seq<int>, fresh: int)
    requires decreasing(c), forall|i: int| 0 <= i < c.len() ==> c[i] < fresh,
    ensures decreasing(rekeyed(c, fresh)), rekeyed(c, fresh)[0] == fresh,
            forall|g: int| c.contains(g) ==> rekeyed(c, fresh).contains(g),
{
    let r = rekeyed(c, fresh);
    assert forall|i: int, j: int| 0 <= i < j < r.len() implies r[i] > r[j] by {
        if i == 0 { assert(r[j] == c[j - 1]); } else { assert(r[i] == c[i - 1]); assert(r[j] == c[j - 1]); }
    }
    assert forall|g: int| c.contains(g) implies r.contains(g) by {
        let k = choose|k: int| 0 <= k < c.len() && c[k] == g;
        assert(r[k + 1] == g);
    }
}

/// C05: the master key keeps exactly the newest secret of a pruned right; a key refreshed afterwards holds nothing older
proof fn lemma_prune_then_refresh(master: Seq<int>, user: Seq<int>, g: int)
    requires master.len() > 0, decreasing(master), user.len() > 0, in_refreshed(pruned(master), user, g),
    ensures g == master[0],
{
    let p = pruned(master);
    assert(p.len() == 1);
    let k = choose|k: int| 0 <= k < p.len() && p[k] == g;
    assert(k == 0);
    assert(p[0] == master[0]);
}

// ---------------------------------------------------------------------------------------------
// C06: activation invariant over arbitrary histories
// ---------------------------------------------------------------------------------------------
pub struct Front { pub gen: int, pub activated: bool }

/// state of one right: its newest secret and whether every attribute of the right is still EncryptDecrypt
pub struct RightState { pub front: Front, pub enabled: bool }

pub enum Op { Update, Rekey(int), Prune, Disable }

/// the contracts discharged on the real functions
pub open spec fn step(s: RightState, op: Op) -> RightState {
    match op {
        // update_msk: front.activated := (status == EncryptDecrypt)
        Op::Update => RightState { front: Front { gen: s.front.gen, activated: s.enabled }, enabled: s.enabled },
        // rekey: the fresh front keeps the activation flag
        Op::Rekey(g) => RightState { front: Front { gen: g, activated: s.front.activated }, enabled: s.enabled },
        // prune: keeps exactly the front
        Op::Prune => s,
        // disabling an attribute is irreversible (there is no enable operation)
        Op::Disable => RightState { front: s.front, enabled: false },
    }
}
/// mpk publishes a right iff its newest secret is activated
pub open spec fn published(s: RightState) -> bool { s.front.activated }

pub open spec fn run(s: RightState, ops: Seq<Op>) -> RightState
    decreases ops.len(),
{
    if ops.len() == 0 { s } else { run(step(s, ops[0]), ops.subrange(1, ops.len() as int)) }
}

/// once a right is disabled and the master key updated, no later sequence of update / rekey / prune publishes it again
proof fn lemma_disabled_never_republished(s: RightState, ops: Seq<Op>)
    requires !s.enabled, !s.front.activated,
    ensures !published(run(s, ops)), !run(s, ops).enabled,
    decreases ops.len(),
{
    if ops.len() > 0 {
        let s1 = step(s, ops[0]);
        assert(!s1.enabled && !s1.front.activated);
        lemma_disabled_never_republished(s1, ops.subrange(1, ops.len() as int));
    }
}

} // verus!
fn main() {}
