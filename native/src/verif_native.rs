//! Shared helper of the native bounded contract checks (injected at the crate root, test builds only).
//!
//! Clauses are NOT fail-fast: a check interleaves clauses of several properties, and a failing clause of one
//! property must not hide the clauses of another.  `vchk!(cond, "Cxx/Cyy: ...", args)` records the first failure of
//! each distinct label (printed as a line `VERIF-FAIL <message>`, parsed by tools/vcheck.py); `done()` at the end
//! of the test prints `VERIF-SOFT-DONE` (every clause was evaluated) and panics with the first recorded failure.
use std::cell::RefCell;

thread_local! {
    static FAILS: RefCell<Vec<String>> = RefCell::new(Vec::new());
    static QUIET: RefCell<u32> = RefCell::new(0);
}

fn label(m: &str) -> &str {
    m.split(':').next().unwrap_or("")
}

pub(crate) fn fail(m: String) {
    FAILS.with(|f| {
        let mut f = f.borrow_mut();
        if !f.iter().any(|x| label(x) == label(&m)) {
            if QUIET.with(|q| *q.borrow()) == 0 {
                println!("VERIF-FAIL {}", m.replace('\n', " "));
            }
            f.push(m);
        }
    })
}

pub(crate) fn chk(cond: bool, msg: impl FnOnce() -> String) {
    if !cond {
        fail(msg());
    }
}

/// Runs `f`, turning a panic into a recorded failure (its message keeps its property label, if any).
pub(crate) fn guarded<R>(what: &str, f: impl FnOnce() -> R) -> Option<R> {
    match std::panic::catch_unwind(std::panic::AssertUnwindSafe(f)) {
        Ok(r) => Some(r),
        Err(e) => {
            let m = e.downcast_ref::<String>().cloned().or_else(|| e.downcast_ref::<&str>().map(|s| s.to_string())).unwrap_or_else(|| "panic".to_string());
            let labelled = m.len() > 4 && m.starts_with('C') && m[1..3].chars().all(|c| c.is_ascii_digit());
            fail(if labelled { m } else { format!("{what}: {m}") });
            None
        }
    }
}

/// Runs `f` with an empty, silent failure list and returns what it recorded (a panic becomes one more entry);
/// the caller decides under which label the failures of this scope are reported (see the history checks).
pub(crate) fn capture(f: impl FnOnce()) -> Vec<String> {
    let saved = FAILS.with(|x| std::mem::take(&mut *x.borrow_mut()));
    QUIET.with(|q| *q.borrow_mut() += 1);
    let r = std::panic::catch_unwind(std::panic::AssertUnwindSafe(f));
    QUIET.with(|q| *q.borrow_mut() -= 1);
    let mut got = FAILS.with(|x| std::mem::replace(&mut *x.borrow_mut(), saved));
    if let Err(e) = r {
        got.push(e.downcast_ref::<String>().cloned().or_else(|| e.downcast_ref::<&str>().map(|s| s.to_string())).unwrap_or_else(|| "panic".to_string()));
    }
    got
}

pub(crate) fn done() {
    println!("VERIF-SOFT-DONE");
    let first = FAILS.with(|f| f.borrow().first().cloned());
    if let Some(f) = first {
        panic!("{f}")
    }
}

macro_rules! vchk {
    ($cond:expr, $($arg:tt)+) => {
        crate::verif_native::chk($cond, || format!($($arg)+))
    };
}
pub(crate) use vchk;
