//! Native bounded contract checks through the real API with the real cryptography (child module of `core`).
use super::*;
use crate::verif_native::{capture, done, fail, vchk};
use crate::{
    abe_policy::{AccessPolicy, EncryptionHint, QualifiedAttribute},
    api::Covercrypt,
    test_utils::cc_keygen,
    traits::{KemAc, PkeAc},
    EncryptedHeader,
};
use cosmian_crypto_core::{bytes_ser_de::{Deserializer, Serializable, Serializer}, Aes256Gcm, Secret};
use std::collections::{BTreeMap, BTreeSet};

fn ap(s: &str) -> AccessPolicy {
    AccessPolicy::parse(s).unwrap()
}

/// Reference semantics, independent of the crate's parser, operators and DNF: the policy strings of this file are
/// parsed by a small recursive-descent parser of the documented grammar
///   or := and ('||' and)* ;  and := atom ('&&' atom)* ;  atom := '(' or ')' | '*' | DIM '::' NAME
#[derive(Clone, Debug)]
enum RefPol {
    Star,
    Term(String, String),
    And(Box<RefPol>, Box<RefPol>),
    Or(Box<RefPol>, Box<RefPol>),
}
struct RefParser<'a> { s: &'a [u8], i: usize }
impl<'a> RefParser<'a> {
    fn ws(&mut self) { while self.i < self.s.len() && self.s[self.i] == b' ' { self.i += 1 } }
    fn eat(&mut self, t: &str) -> bool {
        self.ws();
        if self.s[self.i..].starts_with(t.as_bytes()) { self.i += t.len(); true } else { false }
    }
    fn or(&mut self) -> RefPol {
        let mut l = self.and();
        while self.eat("||") { let r = self.and(); l = RefPol::Or(Box::new(l), Box::new(r)) }
        l
    }
    fn and(&mut self) -> RefPol {
        let mut l = self.atom();
        while self.eat("&&") { let r = self.atom(); l = RefPol::And(Box::new(l), Box::new(r)) }
        l
    }
    fn atom(&mut self) -> RefPol {
        if self.eat("(") { let p = self.or(); assert!(self.eat(")"), "reference parser: missing ')'"); return p }
        if self.eat("*") { return RefPol::Star }
        self.ws();
        let st = self.i;
        while self.i < self.s.len() && !b"()&|".contains(&self.s[self.i]) { self.i += 1 }
        let tok = std::str::from_utf8(&self.s[st..self.i]).unwrap();
        let (d, n) = tok.split_once("::").unwrap_or_else(|| panic!("reference parser: not an attribute: {tok:?}"));
        RefPol::Term(d.trim().to_string(), n.trim().to_string())
    }
}
fn ref_parse(s: &str) -> RefPol {
    let mut p = RefParser { s: s.as_bytes(), i: 0 };
    let r = p.or();
    p.ws();
    assert!(p.i == s.len(), "reference parser: trailing input in {s:?}");
    r
}
fn ref_dnf(p: &RefPol) -> Vec<Vec<(String, String)>> {
    match p {
        RefPol::Star => vec![vec![]],
        RefPol::Term(d, n) => vec![vec![(d.clone(), n.clone())]],
        RefPol::Or(a, b) => [ref_dnf(a), ref_dnf(b)].concat(),
        RefPol::And(a, b) => {
            let (x, y) = (ref_dnf(a), ref_dnf(b));
            x.iter().flat_map(|l| y.iter().map(move |r| [l.as_slice(), r.as_slice()].concat())).collect()
        }
    }
}
/// name-level cover relation of the statement on the test structure (SEC: LOW < TOP hierarchy, DPT: anarchy)
fn term_covers(user: &(String, String), conj: &[(String, String)]) -> bool {
    match conj.iter().find(|q| q.0 == user.0) {
        None => true,
        Some(q) => {
            if user.0 == "SEC" {
                let rank = |n: &str| if n == "LOW" { 0 } else { 1 };
                rank(&q.1) <= rank(&user.1)
            } else {
                q.1 == user.1
            }
        }
    }
}
fn covers(user: &RefPol, conj: &[(String, String)]) -> bool {
    match user {
        RefPol::Star => true,
        RefPol::Term(d, n) => term_covers(&(d.clone(), n.clone()), conj),
        RefPol::And(a, b) => covers(a, conj) && covers(b, conj),
        RefPol::Or(a, b) => covers(a, conj) || covers(b, conj),
    }
}
fn authorized(user: &str, enc: &str) -> bool {
    ref_dnf(&ref_parse(enc)).iter().any(|c| covers(&ref_parse(user), c))
}

const USER_POLICIES: &[&str] = &[
    "*", "SEC::LOW", "SEC::TOP", "DPT::FIN", "DPT::HR", "SEC::LOW && DPT::FIN", "SEC::TOP && DPT::FIN", "SEC::TOP && (DPT::FIN || DPT::HR)",
    "DPT::FIN || DPT::MKG", "(SEC::LOW && DPT::HR) || (SEC::TOP && DPT::MKG)", "SEC::TOP || DPT::RD", "SEC::LOW && (DPT::FIN || (DPT::HR))",
    // '*' as an operand: neutral in a conjunction, absorbing in a disjunction
    "SEC::LOW && *", "DPT::FIN || *", "(*) && DPT::HR",
    // AND binds tighter than OR, without parentheses
    "SEC::LOW && DPT::HR || SEC::TOP && DPT::MKG", "DPT::FIN && SEC::LOW || DPT::HR && SEC::LOW",
];
const ENC_POLICIES: &[&str] = &[
    "*", "SEC::LOW", "SEC::TOP", "DPT::FIN", "DPT::HR", "DPT::MKG", "SEC::LOW && DPT::FIN", "SEC::TOP && DPT::FIN", "SEC::TOP && DPT::HR",
    "SEC::LOW && DPT::MKG", "DPT::FIN || DPT::HR", "(SEC::TOP && DPT::FIN) || (SEC::LOW && DPT::RD)", "SEC::TOP && (DPT::MKG || DPT::DEV)",
    // a conjunction that is a sub-conjunction of another one
    "DPT::FIN || (DPT::FIN && SEC::TOP)", "SEC::LOW || (SEC::LOW && DPT::HR)",
    "SEC::TOP && *", "DPT::HR || *", "(*) && SEC::TOP && DPT::FIN", "(SEC::TOP && DPT::HR) || (*)",
    "SEC::LOW && DPT::MKG || SEC::TOP && DPT::FIN",
];

// @obl props=C01,C02,C09,C11 tier=quick fn=api::Covercrypt::decaps shape="test structure (SEC hierarchy with a hybridized attribute, DPT anarchy), 15 user policies x 19 encryption policies (with '*' as an operand), expected outcome from an independent reference parser and cover relation, real cryptography"
#[test]
fn e2e__decaps_iff_cover_relation() {
    let cc = Covercrypt::default();
    let (mut msk, mpk) = cc_keygen(&cc, false).unwrap();
    let mut n = 0u64;
    let encs: Vec<_> = ENC_POLICIES.iter().map(|e| (*e, cc.encaps(&mpk, &ap(e)).unwrap_or_else(|err| panic!("C09: encapsulating for '{e}' (every targeted right is published) must succeed: {err}")))).collect();
    for u in USER_POLICIES {
        let usk = cc.generate_user_secret_key(&mut msk, &ap(u)).unwrap();
        for (e, (ss, enc)) in &encs {
            let got = cc.decaps(&usk, enc).unwrap();
            if authorized(u, e) {
                vchk!(got.as_ref() == Some(ss), "C01: key for '{u}' must open the encapsulation for '{e}' to the encapsulated secret (got {})", if got.is_some() { "another secret" } else { "nothing" });
            } else {
                vchk!(got.is_none(), "C02: key for '{u}' must not open the encapsulation for '{e}'");
            }
            // hybridized iff every target right is hybridized: only SEC::TOP is hybridized in the test structure
            let all_hyb = ref_dnf(&ref_parse(e)).iter().all(|c| c.iter().any(|q| q.0 == "SEC" && q.1 == "TOP"));
            vchk!(matches!(enc.encapsulations, Encapsulations::HEncs(_)) == all_hyb, "C11: the encapsulation for '{e}' is hybridized iff every targeted right is");
            n += 1;
        }
    }
    println!("VERIF-COUNT e2e__decaps_iff_cover_relation {n}");
    done();
}

// ---------------------------------------------------------------------------
// History model (C03 - C06, C18): chains of secret generations per right
// ---------------------------------------------------------------------------

#[derive(Clone, Default)]
struct Model {
    /// master chain per right: (generation, activated), newest first
    master: BTreeMap<Vec<u8>, Vec<(u32, bool)>>,
    next_gen: u32,
}
#[derive(Clone)]
struct MKey {
    chains: BTreeMap<Vec<u8>, Vec<u32>>,
}
#[derive(Clone)]
struct MEnc {
    /// generation of the secret used for each targeted right
    targets: BTreeMap<Vec<u8>, u32>,
}
impl Model {
    fn from_msk(msk: &MasterSecretKey) -> Self {
        let mut m = Model::default();
        for (r, chain) in msk.secrets.iter() {
            let mut v = vec![];
            for (act, _) in chain.iter() {
                v.push((0u32, *act));
            }
            assert!(v.len() == 1);
            m.master.insert(r.0.clone(), v);
        }
        m.next_gen = 1;
        m
    }
    fn rekey(&mut self, rights: &BTreeSet<Vec<u8>>) {
        for r in rights {
            let g = self.next_gen;
            self.next_gen += 1;
            let c = self.master.get_mut(r).unwrap();
            let act = c[0].1;
            c.insert(0, (g, act));
        }
    }
    fn prune(&mut self, rights: &BTreeSet<Vec<u8>>) {
        for r in rights {
            if let Some(c) = self.master.get_mut(r) {
                c.truncate(1);
            }
        }
    }
    /// reconciliation with the rights of the structure: (right, activated)
    fn update(&mut self, omega: &BTreeMap<Vec<u8>, bool>) {
        self.master.retain(|r, _| omega.contains_key(r));
        for (r, act) in omega {
            match self.master.get_mut(r) {
                Some(c) => c[0].1 = *act,
                None => {
                    let g = self.next_gen;
                    self.next_gen += 1;
                    self.master.insert(r.clone(), vec![(g, true)]);
                }
            }
        }
    }
    fn keygen(&self, rights: &BTreeSet<Vec<u8>>) -> MKey {
        MKey { chains: rights.iter().map(|r| (r.clone(), vec![self.master[r][0].0])).collect() }
    }
    fn refresh(&self, k: &mut MKey, keep: bool) {
        let mut out = BTreeMap::new();
        for (r, chain) in &k.chains {
            if let Some(m) = self.master.get(r) {
                let gens: Vec<u32> = m.iter().map(|x| x.0).collect();
                let newc: Vec<u32> = if keep {
                    // master secrets newer than the user's newest ++ user secrets still held by the master key
                    let newest_user = chain[0];
                    gens.iter().copied().filter(|g| *g > newest_user || chain.contains(g)).collect()
                } else {
                    vec![gens[0]]
                };
                out.insert(r.clone(), newc);
            }
        }
        k.chains = out;
    }
    /// rights that can be encrypted to (published)
    fn published(&self, r: &Vec<u8>) -> bool {
        self.master.get(r).map_or(false, |c| c[0].1)
    }
    fn encaps(&self, targets: &BTreeSet<Vec<u8>>) -> Option<MEnc> {
        if targets.iter().all(|r| self.published(r)) {
            Some(MEnc { targets: targets.iter().map(|r| (r.clone(), self.master[r][0].0)).collect() })
        } else {
            None
        }
    }
}
fn can_open(k: &MKey, e: &MEnc) -> bool {
    e.targets.iter().any(|(r, g)| k.chains.get(r).map_or(false, |c| c.contains(g)))
}
fn rights_of(s: &crate::abe_policy::AccessStructure, p: &str, user: bool) -> BTreeSet<Vec<u8>> {
    let set = if user { s.ap_to_usk_rights(&ap(p)).unwrap() } else { s.ap_to_enc_rights(&ap(p)).unwrap() };
    set.into_iter().map(|r| r.0).collect()
}
fn omega_of(s: &crate::abe_policy::AccessStructure) -> BTreeMap<Vec<u8>, bool> {
    s.omega().unwrap().into_iter().map(|(r, (_, st))| (r.0, st == crate::abe_policy::AttributeStatus::EncryptDecrypt)).collect()
}

struct World {
    cc: Covercrypt,
    msk: MasterSecretKey,
    mpk: MasterPublicKey,
    model: Model,
    keys: Vec<(String, UserSecretKey, MKey)>,
    encs: Vec<(String, Secret<32>, XEnc, MEnc)>,
}
impl World {
    fn new() -> Self {
        let cc = Covercrypt::default();
        let (msk, mpk) = cc_keygen(&cc, false).unwrap();
        let model = Model::from_msk(&msk);
        World { cc, msk, mpk, model, keys: vec![], encs: vec![] }
    }
    fn keygen(&mut self, p: &str) {
        let usk = self.cc.generate_user_secret_key(&mut self.msk, &ap(p)).unwrap();
        let mk = self.model.keygen(&rights_of(&self.msk.access_structure, p, true));
        self.keys.push((p.to_string(), usk, mk));
    }
    fn encaps(&mut self, p: &str, hist: &str) {
        let targets = match self.mpk.access_structure.ap_to_enc_rights(&ap(p)) { Ok(t) => t, Err(_) => return };
        let targets: BTreeSet<Vec<u8>> = targets.into_iter().map(|r| r.0).collect();
        let real = self.cc.encaps(&self.mpk, &ap(p));
        match self.model.encaps(&targets) {
            Some(me) => {
                let (ss, enc) = real.unwrap_or_else(|e| panic!("C09: after [{hist}] encapsulating for '{p}' must succeed: {e}"));
                self.encs.push((p.to_string(), ss, enc, me));
            }
            None => vchk!(real.is_err(), "C06/C09: after [{hist}] encapsulating for '{p}' must fail (a targeted right is not published)"),
        }
    }
    fn rekey(&mut self, p: &str) {
        self.mpk = self.cc.rekey(&mut self.msk, &ap(p)).unwrap();
        self.model.rekey(&rights_of(&self.msk.access_structure, p, true));
    }
    fn prune(&mut self, p: &str) {
        self.mpk = self.cc.prune_master_secret_key(&mut self.msk, &ap(p)).unwrap();
        self.model.prune(&rights_of(&self.msk.access_structure, p, true));
    }
    fn update(&mut self) {
        self.mpk = self.cc.update_msk(&mut self.msk).unwrap();
        self.model.update(&omega_of(&self.msk.access_structure));
    }
    fn refresh(&mut self, i: usize, keep: bool, hist: &str) {
        let (p, usk, mk) = &mut self.keys[i];
        self.cc.refresh_usk(&mut self.msk, usk, keep).unwrap_or_else(|e| panic!("C04/C09: after [{hist}] refreshing the key for '{p}' (keep = {keep}) must succeed: {e}"));
        self.model.refresh(mk, keep);
    }
    fn roundtrip(&mut self) {
        self.msk = MasterSecretKey::deserialize(&self.msk.serialize().unwrap()).unwrap();
        self.mpk = MasterPublicKey::deserialize(&self.mpk.serialize().unwrap()).unwrap();
        for (_, usk, _) in self.keys.iter_mut() {
            *usk = UserSecretKey::deserialize(&usk.serialize().unwrap()).unwrap();
        }
        for (_, _, enc, _) in self.encs.iter_mut() {
            *enc = XEnc::deserialize(&enc.serialize().unwrap()).unwrap();
        }
    }
    /// every (key, encapsulation) pair agrees with the model; the public key re-derived from the master key is the published one
    fn check(&self, hist: &str) -> u64 {
        let mut n = 0;
        // C03 speaks about histories that edit the structure; C04 / C05 about rotation, refresh and pruning
        let lbl = if ["Delete", "AddAttr", "Disable"].iter().any(|k| hist.contains(k)) { "C03/C04/C05" } else { "C04/C05" };
        for (kp, usk, mk) in &self.keys {
            for (ep, ss, enc, me) in &self.encs {
                let got = self.cc.decaps(usk, enc).unwrap();
                if can_open(mk, me) {
                    vchk!(got.as_ref() == Some(ss), "{lbl}: after [{hist}] the key for '{kp}' must open the encapsulation made for '{ep}' (model: it holds the secret used)");
                } else {
                    vchk!(got.is_none(), "{lbl}: after [{hist}] the key for '{kp}' must NOT open the encapsulation made for '{ep}' (model: it holds none of the secrets used)");
                }
                n += 1;
            }
        }
        vchk!(self.msk.mpk().unwrap() == self.mpk, "C06/C13: after [{hist}] the public key re-derived from the master key differs from the one returned by the operation");
        n
    }
}

#[derive(Clone, Copy, Debug)]
enum Op {
    Rekey(&'static str),
    Prune(&'static str),
    Refresh(usize, bool),
    Disable(&'static str, &'static str),
    Delete(&'static str, &'static str),
    AddAttr(&'static str, &'static str),
    Keygen(&'static str),
    Roundtrip,
}
const OPS: &[Op] = &[
    Op::Rekey("DPT::FIN"),
    Op::Rekey("SEC::LOW && DPT::FIN"),
    Op::Rekey("SEC::TOP"),
    Op::Prune("DPT::FIN"),
    Op::Prune("SEC::TOP"),
    Op::Refresh(0, true),
    Op::Refresh(0, false),
    Op::Refresh(1, true),
    Op::Refresh(1, false),
    Op::Disable("DPT", "FIN"),
    Op::Disable("SEC", "TOP"),
    Op::Delete("DPT", "FIN"),
    Op::Delete("SEC", "LOW"),
    Op::AddAttr("DPT", "NEW"),
    Op::Keygen("SEC::TOP && DPT::FIN"),
    Op::Roundtrip,
];
const PROBE_ENCS: &[&str] = &["DPT::FIN", "SEC::LOW && DPT::FIN", "SEC::TOP && DPT::FIN", "DPT::HR", "SEC::TOP", "DPT::NEW", "SEC::LOW && DPT::NEW"];

fn run_history(seq: &[Op]) -> u64 {
    let mut w = World::new();
    let mut n = 0;
    w.keygen("SEC::TOP && DPT::FIN");
    w.keygen("SEC::LOW && (DPT::FIN || DPT::HR)");
    let mut hist = String::new();
    let mut disabled: Vec<(&str, &str)> = vec![];
    for p in PROBE_ENCS { w.encaps(p, "setup"); }
    n += w.check("setup");
    for op in seq {
        hist.push_str(&format!("{op:?}; "));
        match *op {
            Op::Rekey(p) => { if w.msk.access_structure.ap_to_usk_rights(&ap(p)).is_ok() { w.rekey(p) } }
            Op::Prune(p) => { if w.msk.access_structure.ap_to_usk_rights(&ap(p)).is_ok() { w.prune(p) } }
            Op::Refresh(i, keep) => w.refresh(i, keep, &hist),
            Op::Disable(d, a) => { if w.msk.access_structure.disable_attribute(&QualifiedAttribute::new(d, a)).is_ok() { disabled.push((d, a)); w.update() } }
            Op::Delete(d, a) => { if w.msk.access_structure.del_attribute(&QualifiedAttribute::new(d, a)).is_ok() { disabled.retain(|x| *x != (d, a)); w.update() } }
            Op::AddAttr(d, a) => {
                if w.msk.access_structure.add_attribute(QualifiedAttribute::new(d, a), EncryptionHint::Classic, None).is_ok() {
                    // documented refusal: the new attribute would create rights born disabled (an attribute of ANOTHER dimension is disabled)
                    let other_disabled = disabled.iter().any(|(dd, _)| *dd != d);
                    if other_disabled {
                        let r = w.cc.update_msk(&mut w.msk);
                        vchk!(matches!(r, Err(Error::OperationNotPermitted(_))), "C09/C06: after [{hist}] adding {d}::{a} creates rights born disabled: the update must be refused (OperationNotPermitted)");
                        w.msk.access_structure.del_attribute(&QualifiedAttribute::new(d, a)).unwrap();
                    } else {
                        w.update()
                    }
                }
            }
            Op::Keygen(p) => { if w.msk.access_structure.ap_to_usk_rights(&ap(p)).is_ok() { w.keygen(p) } }
            Op::Roundtrip => w.roundtrip(),
        }
        for p in PROBE_ENCS { w.encaps(p, &hist); }
        n += w.check(&hist);
    }
    n
}

/// One history, clauses not fail-fast.  A failing history that contains serialization round-trips is run again without
/// them: if that passes, the failure is a C13 failure (using the deserialized object changed a later outcome) and only that.
fn checked_history(seq: &[Op]) -> u64 {
    let mut n = 0;
    let fails = capture(|| n = run_history(seq));
    if fails.is_empty() {
        return n;
    }
    if seq.iter().any(|o| matches!(o, Op::Roundtrip)) {
        let without: Vec<Op> = seq.iter().cloned().filter(|o| !matches!(o, Op::Roundtrip)).collect();
        if capture(|| { run_history(&without); }).is_empty() {
            for m in fails {
                // (the properties of the original clause are violated in this history too: it contains a reload)
                let orig = m.split(':').next().unwrap_or("").to_string();
                let lbl = if orig.starts_with('C') && orig.len() <= 24 { format!("C13/{orig}") } else { "C13".to_string() };
                fail(format!("{lbl}: a serialization round-trip injected in a history changes a later outcome (the same history without it passes): {m}"));
            }
            return n;
        }
    }
    for m in fails {
        fail(m);
    }
    n
}

// @obl props=C03,C04,C05,C06,C09,C13 tier=quick fn=api::Covercrypt::refresh_usk shape="all histories of 2 operations out of 16 (rekey / prune / refresh keep|nokeep / disable / delete / add / keygen / serialization round-trip), 2 keys, 7 probe encapsulations after every step, compared with a chain model; real cryptography"
#[test]
fn history__decaps_agrees_with_chain_model_len2() {
    let mut n = 0u64;
    for a in OPS {
        for b in OPS {
            n += checked_history(&[*a, *b]);
        }
    }
    println!("VERIF-COUNT history__decaps_agrees_with_chain_model_len2 {n}");
    done();
}

// @obl props=C03,C04,C05,C06,C09,C13 tier=thorough fn=api::Covercrypt::refresh_usk shape="all histories of 3 operations out of 16, as above"
#[test]
fn history__decaps_agrees_with_chain_model_len3() {
    if std::env::var("VERIF_TIER").map_or(true, |t| t != "thorough") {
        println!("VERIF-COUNT history__decaps_agrees_with_chain_model_len3 0");
        return;
    }
    let mut n = 0u64;
    for a in OPS { for b in OPS { for c in OPS { n += checked_history(&[*a, *b, *c]); } } }
    println!("VERIF-COUNT history__decaps_agrees_with_chain_model_len3 {n}");
    done();
}

// @obl props=C03,C04,C05,C06,C09,C13 tier=quick fn=api::Covercrypt::refresh_usk shape="23 hand-picked histories of 3 to 6 operations (double rekey then prune then refresh, delete then add then refresh, disable then rekey, ...), chain model, real cryptography"
#[test]
fn history__targeted_long_sequences() {
    use Op::*;
    let seqs: &[&[Op]] = &[
        &[Rekey("DPT::FIN"), Rekey("DPT::FIN"), Prune("DPT::FIN"), Refresh(0, true)],
        &[Rekey("DPT::FIN"), Rekey("DPT::FIN"), Prune("DPT::FIN"), Refresh(1, true), Refresh(0, false)],
        &[Rekey("SEC::LOW && DPT::FIN"), Refresh(0, true), Rekey("SEC::TOP"), Refresh(0, true)],
        &[Rekey("SEC::LOW && DPT::FIN"), Rekey("SEC::TOP"), Refresh(0, true), Prune("SEC::TOP"), Refresh(0, true)],
        &[Disable("DPT", "FIN"), Rekey("DPT::FIN"), Refresh(0, true), Roundtrip],
        &[Rekey("DPT::FIN"), Disable("DPT", "FIN"), Rekey("DPT::FIN"), Roundtrip, Prune("DPT::FIN")],
        &[Rekey("DPT::FIN"), Refresh(0, true), Refresh(0, false), Refresh(1, true), Refresh(1, false)],
        &[Rekey("SEC::TOP"), Rekey("DPT::FIN"), Refresh(0, true), Refresh(0, false)],
        // a refreshed key (2 revisions) is stored and reloaded, then follows the next rotation
        &[Rekey("DPT::FIN"), Refresh(0, true), Roundtrip, Rekey("DPT::FIN"), Refresh(0, true)],
        &[Rekey("DPT::FIN"), Refresh(0, true), Roundtrip, Refresh(0, false), Refresh(1, true)],
        // a key that missed a rekey is refreshed only after the attribute was disabled: it still receives the secret in use before
        &[Rekey("DPT::FIN"), Disable("DPT", "FIN"), Refresh(0, true)],
        &[Rekey("DPT::FIN"), Rekey("SEC::LOW && DPT::FIN"), Disable("DPT", "FIN"), Refresh(1, true), Refresh(0, false)],
        &[Rekey("SEC::LOW && DPT::FIN"), Rekey("DPT::FIN"), Refresh(0, true), Refresh(0, true), Rekey("DPT::FIN"), Refresh(0, true)],
        &[Delete("DPT", "FIN"), AddAttr("DPT", "NEW"), Refresh(0, true), Refresh(1, false)],
        &[Disable("DPT", "FIN"), Prune("DPT::FIN"), Rekey("SEC::TOP"), Refresh(1, false)],
        &[Delete("DPT", "FIN"), AddAttr("DPT", "NEW"), Refresh(0, true), Refresh(1, true)],
        &[AddAttr("DPT", "NEW"), Keygen("SEC::TOP && DPT::FIN"), Rekey("DPT::FIN"), Refresh(2, true)],
        &[Delete("SEC", "LOW"), AddAttr("DPT", "NEW"), Refresh(0, false), Refresh(1, false)],
        &[Rekey("SEC::TOP"), Roundtrip, Refresh(0, true), Prune("SEC::TOP"), Refresh(0, false)],
        &[Rekey("DPT::FIN"), Refresh(0, false), Rekey("DPT::FIN"), Refresh(0, true), Prune("DPT::FIN")],
        &[Rekey("DPT::FIN"), Refresh(0, true), Rekey("DPT::FIN"), Refresh(0, true), Prune("DPT::FIN"), Refresh(0, true)],
        &[Disable("DPT", "FIN"), Roundtrip, Rekey("SEC::LOW && DPT::FIN"), Roundtrip],
        &[Rekey("SEC::TOP"), Rekey("SEC::LOW && DPT::FIN"), Refresh(1, true), Refresh(0, true), Prune("DPT::FIN"), Refresh(1, true)],
    ];
    let mut n = 0u64;
    for s in seqs { n += checked_history(s); }
    println!("VERIF-COUNT history__targeted_long_sequences {n}");
    done();
}

// @obl props=C05,C09,C10 tier=quick fn=core::primitives::prune shape="prune while the structure is ahead of the master key (attribute added, no update yet): every held right of the policy is pruned, or the call fails and changes nothing"
#[test]
fn prune__with_pending_structure_edit() {
    let mut n = 0u64;
    for attempt in 0..12 {
        let cc = Covercrypt::default();
        let (mut msk, _mpk) = cc_keygen(&cc, false).unwrap();
        cc.rekey(&mut msk, &ap("SEC::TOP")).unwrap();
        cc.rekey(&mut msk, &ap("DPT::FIN")).unwrap();
        msk.access_structure.add_attribute(QualifiedAttribute::new("DPT", "NEW"), EncryptionHint::Classic, None).unwrap();
        let targets = msk.access_structure.ap_to_usk_rights(&ap("SEC::TOP")).unwrap();
        let before = msk.serialize().unwrap().to_vec();
        let chains_before: BTreeMap<Vec<u8>, usize> = msk.secrets.iter().map(|(r, c)| (r.0.clone(), c.len())).collect();
        match cc.prune_master_secret_key(&mut msk, &ap("SEC::TOP")) {
            Ok(_) => {
                for (r, c) in msk.secrets.iter() {
                    if targets.contains(r) {
                        vchk!(c.len() == 1, "C05: after pruning 'SEC::TOP' (attempt {attempt}) the right {r:?} still holds {} secrets: every right of the policy held by the master key keeps exactly its newest secret", c.len());
                    } else {
                        vchk!(Some(&c.len()) == chains_before.get(&r.0), "C05: pruning 'SEC::TOP' changed the chain of the unrelated right {r:?}");
                    }
                    n += 1;
                }
            }
            Err(e) => {
                vchk!(msk.serialize().unwrap().to_vec() == before, "C10: a failed prune ({e}) modified the master key (partially pruned)");
                vchk!(false, "C09: pruning while an attribute is pending is not a documented error ({e})");
            }
        }
    }
    println!("VERIF-COUNT prune__with_pending_structure_edit {n}");
    done();
}

// ---------------------------------------------------------------------------
// C07: non-malleability of encapsulations (bounded: every byte, every component rearrangement)
// ---------------------------------------------------------------------------

fn mall_world() -> (Covercrypt, MasterSecretKey, MasterPublicKey, Vec<UserSecretKey>) {
    let cc = Covercrypt::default();
    let (mut msk, mpk) = cc_keygen(&cc, false).unwrap();
    let keys = ["SEC::TOP && DPT::FIN", "SEC::LOW && DPT::HR", "DPT::MKG"].iter().map(|p| cc.generate_user_secret_key(&mut msk, &ap(p)).unwrap()).collect();
    (cc, msk, mpk, keys)
}

// @obl props=C07,C14 tier=quick fn=core::primitives::decaps shape="classic (1 and 2 targets) and hybridized encapsulations: every single-bit change of the serialized form (all 8 bits; 2 bits in the middle of ML-KEM ciphertexts), 3 keys, real cryptography"
#[test]
fn malleability__every_byte_of_an_encapsulation_is_bound() {
    let (cc, _msk, mpk, keys) = mall_world();
    let mut n = 0u64;
    for e in ["SEC::LOW && DPT::HR", "(SEC::LOW && DPT::HR) || DPT::MKG", "SEC::TOP && DPT::FIN", "(SEC::TOP && DPT::FIN) || (SEC::TOP && DPT::MKG)"] {
        let (ss, enc) = cc.encaps(&mpk, &ap(e)).unwrap();
        let bytes = enc.serialize().unwrap().to_vec();
        let small = bytes.len() < 400;
        for pos in 0..bytes.len() {
            // every bit of every byte for classic encapsulations and for the head / tail of hybridized ones
            let flips: &[u8] = if small || pos < 128 || pos + 40 >= bytes.len() { &[0x01, 0x02, 0x04, 0x08, 0x10, 0x20, 0x40, 0x80] } else { &[0x01, 0x80] };
            for flip in flips {
                let mut b = bytes.clone();
                b[pos] ^= flip;
                if let Ok(m) = XEnc::deserialize(&b) {
                    for (ki, usk) in keys.iter().enumerate() {
                        if let Ok(Some(got)) = cc.decaps(usk, &m) {
                            panic!("C07: flipping bit {flip:#x} of byte {pos} of the serialized encapsulation for '{e}' ({} bytes) is accepted by key {ki} (returns {})", bytes.len(), if got == ss { "the original secret" } else { "a different secret" });
                        }
                        n += 1;
                    }
                }
            }
        }
    }
    println!("VERIF-COUNT malleability__every_byte_of_an_encapsulation_is_bound {n}");
    done();
}

// @obl props=C07,C12,C14 tier=quick fn=core::primitives::decaps shape="structural rearrangements (incl. no trap / no component at all): reorder / drop / duplicate components, swap components, tags and traps between two encapsulations (classic and hybridized), 3 keys"
#[test]
fn malleability__structural_rearrangements_are_rejected() {
    let (cc, _msk, mpk, keys) = mall_world();
    let mut n = 0u64;
    for (e1, e2) in [("(SEC::LOW && DPT::HR) || DPT::MKG", "(SEC::LOW && DPT::HR) || DPT::MKG"), ("(SEC::TOP && DPT::FIN) || (SEC::TOP && DPT::MKG)", "(SEC::TOP && DPT::FIN) || (SEC::TOP && DPT::HR)"), ("SEC::LOW && DPT::HR", "DPT::MKG")] {
        let (_s1, x1) = cc.encaps(&mpk, &ap(e1)).unwrap();
        let (_s2, x2) = cc.encaps(&mpk, &ap(e2)).unwrap();
        let mut mutants: Vec<(String, XEnc)> = vec![];
        let mut push = |name: &str, m: XEnc| mutants.push((name.to_string(), m));
        match (&x1.encapsulations, &x2.encapsulations) {
            (Encapsulations::CEncs(a), Encapsulations::CEncs(b)) => {
                if a.len() > 1 { let mut v = a.clone(); v.swap(0, 1); push("reordered components", XEnc { encapsulations: Encapsulations::CEncs(v), ..x1.clone() }); }
                let mut v = a.clone(); v.pop(); push("dropped component", XEnc { encapsulations: Encapsulations::CEncs(v), ..x1.clone() });
                let mut v = a.clone(); v.push(a[0]); push("duplicated component", XEnc { encapsulations: Encapsulations::CEncs(v), ..x1.clone() });
                let mut v = a.clone(); v[0] = b[0]; push("component of another encapsulation", XEnc { encapsulations: Encapsulations::CEncs(v), ..x1.clone() });
                push("all components of another encapsulation", XEnc { encapsulations: Encapsulations::CEncs(b.clone()), ..x1.clone() });
            }
            (Encapsulations::HEncs(a), Encapsulations::HEncs(b)) => {
                if a.len() > 1 { let mut v = a.clone(); v.swap(0, 1); push("reordered components", XEnc { encapsulations: Encapsulations::HEncs(v), ..x1.clone() }); }
                let mut v = a.clone(); v.pop(); push("dropped component", XEnc { encapsulations: Encapsulations::HEncs(v), ..x1.clone() });
                let mut v = a.clone(); v.push(a[0].clone()); push("duplicated component", XEnc { encapsulations: Encapsulations::HEncs(v), ..x1.clone() });
                if a.len() > 1 { let mut v = a.clone(); let e0 = v[0].0.clone(); v[0].0 = v[1].0.clone(); v[1].0 = e0; push("KEM ciphertexts swapped between components", XEnc { encapsulations: Encapsulations::HEncs(v), ..x1.clone() }); }
                let mut v = a.clone(); v[0].0 = b[0].0.clone(); push("KEM ciphertext of another encapsulation", XEnc { encapsulations: Encapsulations::HEncs(v), ..x1.clone() });
                let mut v = a.clone(); v[0].1 = b[0].1; push("masked seed of another encapsulation", XEnc { encapsulations: Encapsulations::HEncs(v), ..x1.clone() });
                push("downgraded to classic", XEnc { encapsulations: Encapsulations::CEncs(a.iter().map(|x| x.1).collect()), ..x1.clone() });
            }
            _ => {}
        }
        push("tag of another encapsulation", XEnc { tag: x2.tag, ..x1.clone() });
        // changes of the tag that a folded / order-insensitive comparison would not see
        { let mut t = x1.tag; t[0] ^= 0x01; t[1] ^= 0x01; push("tag with two bytes xored by the same value", XEnc { tag: t, ..x1.clone() }); }
        { let mut t = x1.tag; t[3] ^= 0xa5; t[12] ^= 0xa5; push("tag with two distant bytes xored by the same value", XEnc { tag: t, ..x1.clone() }); }
        if let Some(j) = (1..x1.tag.len()).find(|j| x1.tag[*j] != x1.tag[0]) { let mut t = x1.tag; t.swap(0, j); push("tag with two bytes swapped", XEnc { tag: t, ..x1.clone() }); }
        { let mut t = x1.tag; t.reverse(); if t != x1.tag { push("tag reversed", XEnc { tag: t, ..x1.clone() }); } }
        push("traps of another encapsulation", XEnc { c: x2.c.clone(), ..x1.clone() });
        let mut c = x1.c.clone(); c.reverse(); push("reordered traps", XEnc { c, ..x1.clone() });
        let mut c = x1.c.clone(); c.pop(); push("dropped trap", XEnc { c, ..x1.clone() });
        let mut c = x1.c.clone(); c.push(x1.c[0].clone()); push("duplicated trap", XEnc { c, ..x1.clone() });
        push("all traps dropped", XEnc { c: vec![], ..x1.clone() });
        push("all components dropped", XEnc { encapsulations: match &x1.encapsulations { Encapsulations::CEncs(_) => Encapsulations::CEncs(vec![]), Encapsulations::HEncs(_) => Encapsulations::HEncs(vec![]) }, ..x1.clone() });
        for (name, m) in &mutants {
            if *m == x1 { continue; }
            for (ki, usk) in keys.iter().enumerate() {
                let r = match std::panic::catch_unwind(std::panic::AssertUnwindSafe(|| cc.decaps(usk, m))) {
                    Ok(r) => r,
                    Err(_) => { vchk!(false, "C14/C12: decapsulating the well-formed encapsulation for '{e1}' with {name} panics (key {ki})"); continue }
                };
                vchk!(!matches!(r, Ok(Some(_))), "C07: encapsulation for '{e1}' with {name} is accepted by key {ki}");
                n += 1;
            }
        }
    }
    println!("VERIF-COUNT malleability__structural_rearrangements_are_rejected {n}");
    done();
}

// ---------------------------------------------------------------------------
// C12: PKE and header layers
// ---------------------------------------------------------------------------

// @obl props=C01,C12,C13,C14,C07 tier=quick fn=api::Covercrypt::encrypt shape="plaintext lengths 0..=40 and 4096; authorized and unauthorized key; every truncation; every single-byte change of the DEM ciphertext"
#[test]
fn pke__roundtrip_truncation_and_tampering() {
    let cc = Covercrypt::default();
    let (mut msk, mpk) = cc_keygen(&cc, false).unwrap();
    let ok = cc.generate_user_secret_key(&mut msk, &ap("SEC::TOP && DPT::FIN")).unwrap();
    let ko = cc.generate_user_secret_key(&mut msk, &ap("DPT::HR")).unwrap();
    let mut n = 0u64;
    for len in (0..=40usize).chain([4096]) {
        let ptx: Vec<u8> = (0..len).map(|i| (i * 7 + len) as u8).collect();
        let ctx = PkeAc::<{ Aes256Gcm::KEY_LENGTH }, Aes256Gcm>::encrypt(&cc, &mpk, &ap("SEC::LOW && DPT::FIN"), &ptx).unwrap();
        let got = PkeAc::<{ Aes256Gcm::KEY_LENGTH }, Aes256Gcm>::decrypt(&cc, &ok, &ctx).unwrap();
        vchk!(got.as_deref().map(|v| &v[..]) == Some(&ptx[..]), "C12: an authorized key decrypts a {len}-byte plaintext to the exact plaintext");
        vchk!(PkeAc::<{ Aes256Gcm::KEY_LENGTH }, Aes256Gcm>::decrypt(&cc, &ko, &ctx).unwrap().is_none(), "C12: an unauthorized key gets 'not authorized'");
        vchk!(ctx.1.len() == len + 12 + 16, "C12: DEM ciphertext = nonce || ciphertext || tag");
        // the DEM key is KDF(seed, "Covercrypt AE key") for the seed of the encapsulation (the pinned wire format): a ciphertext
        // of the pinned release must keep decrypting, and a ciphertext made here must decrypt with that key
        {
            use cosmian_crypto_core::SymmetricKey;
            let seed = cc.decaps(&ok, &ctx.0).unwrap().expect("C01: authorized");
            let key = SymmetricKey::<32>::derive(&seed, b"Covercrypt AE key").unwrap_or_else(|_| panic!("kdf"));
            let r = <Aes256Gcm as crate::traits::AE<32>>::decrypt(&key, &ctx.1);
            vchk!(r.as_ref().map(|v| &v[..]).ok() == Some(&ptx[..]), "C12/C13: the DEM ciphertext of a {len}-byte plaintext does not open under KDF(seed, \"Covercrypt AE key\") (key derivation of the pinned format changed)");
        }
        if len <= 40 {
            for t in 0..ctx.1.len() {
                let cut = (ctx.0.clone(), ctx.1[..t].to_vec());
                let r = std::panic::catch_unwind(std::panic::AssertUnwindSafe(|| PkeAc::<{ Aes256Gcm::KEY_LENGTH }, Aes256Gcm>::decrypt(&cc, &ok, &cut)));
                vchk!(matches!(r, Ok(Err(_))), "C12/C14: a ciphertext truncated to {t} bytes (of {}) must yield an error, never a panic or data", ctx.1.len());
                n += 1;
            }
            for pos in 0..ctx.1.len() {
                let mut bad = ctx.clone();
                bad.1[pos] ^= 0x04;
                vchk!(PkeAc::<{ Aes256Gcm::KEY_LENGTH }, Aes256Gcm>::decrypt(&cc, &ok, &bad).is_err(), "C12/C07: altering byte {pos} of the DEM ciphertext must be rejected");
                n += 1;
            }
        }
        n += 1;
    }
    // hybridized encapsulations with several targets (component order matters for the tag): repeated, every one must open
    for rep in 0..12 {
        let pol = "SEC::TOP && (DPT::FIN || DPT::MKG || DPT::HR)";
        let ptx = vec![rep as u8; 20];
        let ctx = PkeAc::<{ Aes256Gcm::KEY_LENGTH }, Aes256Gcm>::encrypt(&cc, &mpk, &ap(pol), &ptx).unwrap();
        let got = PkeAc::<{ Aes256Gcm::KEY_LENGTH }, Aes256Gcm>::decrypt(&cc, &ok, &ctx);
        vchk!(matches!(&got, Ok(Some(v)) if &v[..] == &ptx[..]), "C12/C01: an authorized key must decrypt the ciphertext for '{pol}' (hybridized, 3 targets) to the exact plaintext (attempt {rep})");
        let (secret, hdr) = EncryptedHeader::generate(&cc, &mpk, &ap(pol), Some(b"m"), Some(b"aad")).unwrap();
        let clear = hdr.decrypt(&cc, &ok, Some(b"aad"));
        vchk!(matches!(&clear, Ok(Some(c)) if c.secret == secret && c.metadata.as_deref() == Some(&b"m"[..])), "C12/C01: an authorized key must open the header for '{pol}' (hybridized, 3 targets) to the same secret and metadata (attempt {rep})");
        vchk!(hdr.decrypt(&cc, &ok, Some(b"other")).is_err(), "C12: authentication data with different content must be rejected (hybridized, 3 targets)");
        n += 1;
    }
    println!("VERIF-COUNT pke__roundtrip_truncation_and_tampering {n}");
    done();
}

// @obl props=C12,C13,C14,C16,C07 tier=quick fn=EncryptedHeader::decrypt shape="metadata absent / empty / 1 / 16 / 33 bytes x authentication data absent / empty / 1 byte / non-empty; truncations also through the serialized form; key derivation labels pinned; mismatching authentication data; truncated and altered metadata; unauthorized key; serialization round-trip"
#[test]
fn header__roundtrip_authentication_and_secret() {
    let cc = Covercrypt::default();
    let (mut msk, mpk) = cc_keygen(&cc, false).unwrap();
    let ok = cc.generate_user_secret_key(&mut msk, &ap("SEC::TOP && DPT::FIN")).unwrap();
    let ko = cc.generate_user_secret_key(&mut msk, &ap("DPT::HR")).unwrap();
    let metas: Vec<Option<Vec<u8>>> = vec![None, Some(vec![]), Some(vec![7]), Some(vec![1; 16]), Some((0..33).collect())];
    let aads: Vec<Option<Vec<u8>>> = vec![None, Some(vec![]), Some(b"aad".to_vec()), Some(vec![0]), Some(vec![1])];
    let mut n = 0u64;
    for m in &metas {
        for a in &aads {
            let (secret, hdr) = EncryptedHeader::generate(&cc, &mpk, &ap("SEC::LOW && DPT::FIN"), m.as_deref(), a.as_deref()).unwrap();
            let clear = hdr.decrypt(&cc, &ok, a.as_deref()).unwrap().expect("C12: an authorized key opens the header");
            vchk!(clear.secret == secret, "C12: the header yields the same secret that generation returned");
            vchk!(clear.metadata == m.clone(), "C12: the header yields the exact metadata (metadata {m:?}, aad {a:?})");
            vchk!(hdr.decrypt(&cc, &ko, a.as_deref()).unwrap().is_none(), "C12: an unauthorized key gets 'not authorized'");
            // absent and empty authentication data are the same
            let other_empty: Option<&[u8]> = if a.is_none() { Some(&[]) } else { None };
            if a.as_ref().map_or(true, |x| x.is_empty()) {
                let r = hdr.decrypt(&cc, &ok, other_empty);
                vchk!(r.is_ok() && r.unwrap().unwrap().metadata == m.clone(), "C12: absent and empty authentication data are interchangeable");
            }
            if m.is_some() {
                vchk!(hdr.decrypt(&cc, &ok, Some(b"other")).is_err(), "C12: authentication data with different content must be rejected");
                let ctx = hdr.encrypted_metadata.clone().unwrap();
                for t in 0..ctx.len() {
                    let cut = EncryptedHeader { encapsulation: hdr.encapsulation.clone(), encrypted_metadata: Some(ctx[..t].to_vec()) };
                    let r = std::panic::catch_unwind(std::panic::AssertUnwindSafe(|| cut.decrypt(&cc, &ok, a.as_deref())));
                    vchk!(matches!(r, Ok(Err(_))), "C12/C14: encrypted metadata truncated to {t} bytes must yield an error, never a panic or data");
                    if t > 0 {
                        // the same truncated header travelling in serialized form (t = 0 is the absent / empty wire value)
                        let wire = EncryptedHeader::deserialize(&cut.serialize().unwrap()).unwrap();
                        let same = wire == cut;
                        let r = std::panic::catch_unwind(std::panic::AssertUnwindSafe(|| wire.decrypt(&cc, &ok, a.as_deref())));
                        vchk!(same && matches!(r, Ok(Err(_))), "C12/C13/C14: a header whose encrypted metadata was truncated to {t} bytes, sent in serialized form, must come back unchanged (unchanged: {same}) and yield an error, never a panic or data (got {r:?})");
                    }
                    n += 1;
                }
                for pos in 0..ctx.len() {
                    let mut bad = ctx.clone();
                    bad[pos] ^= 0x10;
                    let h = EncryptedHeader { encapsulation: hdr.encapsulation.clone(), encrypted_metadata: Some(bad) };
                    vchk!(h.decrypt(&cc, &ok, a.as_deref()).is_err(), "C12/C07: altering byte {pos} of the encrypted metadata must be rejected");
                    n += 1;
                }
                // the metadata key differs from the secret handed to the caller: decrypting the metadata with the returned secret as key must fail
                use cosmian_crypto_core::{Dem, FixedSizeCBytes, Instantiable, Nonce, SymmetricKey};
                let key = SymmetricKey::<32>::try_from_bytes(*secret.clone()).unwrap_or_else(|_| panic!("key"));
                let nonce = Nonce::try_from_slice(&ctx[..12]).unwrap();
                vchk!(Aes256Gcm::new(&key).decrypt(&nonce, &ctx[12..], a.as_deref()).is_err(), "C16: the metadata encryption key must differ from the secret handed to the caller (authentication data {a:?})");
                // both derive from the encapsulated seed with the fixed, distinct labels of the pinned wire format,
                // whatever the authentication data: metadata key = KDF(seed, 0x00), caller's secret = KDF(seed, 0x01)
                let seed = cc.decaps(&ok, &hdr.encapsulation).unwrap().expect("C01: authorized");
                let mk = SymmetricKey::<32>::derive(&seed, &[0u8]).unwrap_or_else(|_| panic!("kdf"));
                let got = Aes256Gcm::new(&mk).decrypt(&nonce, &ctx[12..], a.as_deref());
                vchk!(got.as_ref().ok() == m.as_ref(), "C16/C13: the metadata must be encrypted under KDF(seed, 0x00) whatever the authentication data ({a:?}): the key must stay independent of caller input and distinct from the caller's secret KDF(seed, 0x01)");
                let mut s1 = Secret::<32>::default();
                cosmian_crypto_core::kdf256!(&mut *s1, &*seed, &[1u8]);
                vchk!(s1 == secret, "C16/C13: the secret handed to the caller is KDF(seed, 0x01)");
            }
            // wire format: absent and empty metadata are the same value
            let bytes = hdr.serialize().unwrap();
            vchk!(bytes.len() == hdr.length(), "C13: header serialization has the announced length");
            let back = EncryptedHeader::deserialize(&bytes).unwrap();
            let same = back == hdr || (hdr.encrypted_metadata.as_ref().map_or(false, |v| v.is_empty()) && back.encrypted_metadata.is_none() && back.encapsulation == hdr.encapsulation);
            vchk!(same, "C13: header round-trip");
            let c2 = back.decrypt(&cc, &ok, a.as_deref()).unwrap().unwrap();
            vchk!(c2.secret == secret, "C13: a deserialized header yields the same secret");
            n += 1;
        }
    }
    // every metadata length around the boundaries of the LEB128 length prefix of the encrypted metadata (1 -> 2 bytes at
    // 128, 2 -> 3 bytes at 16384; nonce + tag add 28 bytes): serialized form, round-trip, decryption
    for len in (0..=160usize).chain(16350..=16360) {
        let m: Vec<u8> = (0..len).map(|i| i as u8).collect();
        let (secret, hdr) = EncryptedHeader::generate(&cc, &mpk, &ap("SEC::LOW && DPT::FIN"), Some(&m), None).unwrap();
        let bytes = hdr.serialize().unwrap();
        let back = EncryptedHeader::deserialize(&bytes);
        vchk!(bytes.len() == hdr.length() && back.as_ref().map_or(false, |b| b == &hdr), "C12/C13: a valid header with {len} bytes of metadata does not survive its serialized form ({})", back.as_ref().err().map_or("different object".to_string(), |e| e.to_string()));
        if let Ok(b) = back {
            let clear = b.decrypt(&cc, &ok, None);
            vchk!(matches!(&clear, Ok(Some(c)) if c.secret == secret && c.metadata.as_deref().unwrap_or(&[]) == &m[..]), "C12/C13: a deserialized header with {len} bytes of metadata does not decrypt to the same secret and metadata");
        }
        n += 1;
    }
    println!("VERIF-COUNT header__roundtrip_authentication_and_secret {n}");
    done();
}

// ---------------------------------------------------------------------------
// C13 / C14: serialization
// ---------------------------------------------------------------------------

fn check_ser<T: Serializable + PartialEq + std::fmt::Debug>(x: &T, what: &str) -> Vec<u8>
where
    T::Error: std::fmt::Debug,
{
    let mut ser = Serializer::new();
    let n = x.write(&mut ser).unwrap();
    let bytes = ser.finalize().to_vec();
    vchk!(bytes.len() == x.length(), "C13: {what}: length() announces {} bytes but {} are written", x.length(), bytes.len());
    vchk!(n == bytes.len(), "C13: {what}: write() returns {n} but {} bytes are written", bytes.len());
    let mut de = Deserializer::new(&bytes);
    let y = T::read(&mut de).unwrap_or_else(|e| panic!("C13: {what}: deserializing a serialized object fails: {e:?}"));
    vchk!(de.finalize().is_empty(), "C13: {what}: read() does not consume exactly the bytes written");
    vchk!(&y == x, "C13: {what}: the deserialized object differs from the original");
    bytes
}

/// objects after a history with several revisions, a disabled right, mixed flavours, several users
fn rich_world() -> (Covercrypt, MasterSecretKey, MasterPublicKey, Vec<UserSecretKey>, Vec<XEnc>) {
    let cc = Covercrypt::default();
    let (mut msk, _) = cc_keygen(&cc, false).unwrap();
    let mut keys: Vec<UserSecretKey> = ["SEC::TOP && DPT::FIN", "SEC::LOW && (DPT::HR || DPT::MKG)", "*"].iter().map(|p| cc.generate_user_secret_key(&mut msk, &ap(p)).unwrap()).collect();
    cc.rekey(&mut msk, &ap("SEC::LOW && DPT::FIN")).unwrap();
    cc.rekey(&mut msk, &ap("SEC::TOP")).unwrap();
    msk.access_structure.disable_attribute(&QualifiedAttribute::new("DPT", "MKG")).unwrap();
    let mpk = cc.update_msk(&mut msk).unwrap();
    cc.refresh_usk(&mut msk, &mut keys[0], true).unwrap();
    cc.refresh_usk(&mut msk, &mut keys[1], false).unwrap();
    let encs = ["SEC::LOW && DPT::FIN", "(SEC::TOP && DPT::FIN) || (SEC::TOP && DPT::HR)", "DPT::HR || DPT::RD || DPT::DEV"].iter().map(|p| cc.encaps(&mpk, &ap(p)).unwrap().1).collect();
    (cc, msk, mpk, keys, encs)
}

// @obl props=C13,C06 tier=quick fn=core::serialization::write shape="master / public / user keys (incl. chains of mixed flavours), attributes in every hint / status combination, encapsulations, tracing keys, ids, right keys, structure, dimensions, cleartext header after a history (2-3 revisions, disabled right, mixed flavours, 3 users); empty structure"
#[test]
fn serialization__length_write_read_roundtrip() {
    let (cc, msk, mpk, keys, encs) = rich_world();
    let mut n = 0u64;
    check_ser(&msk, "MasterSecretKey"); n += 1;
    check_ser(&msk.tsk, "TracingSecretKey"); n += 1;
    check_ser(&mpk, "MasterPublicKey"); n += 1;
    check_ser(&mpk.tpk, "TracingPublicKey"); n += 1;
    check_ser(&msk.access_structure, "AccessStructure"); n += 1;
    for (name, d) in msk.access_structure.dimensions_for_verif() { check_ser(d, &format!("Dimension {name}")); n += 1; }
    for k in &keys {
        check_ser(k, "UserSecretKey"); n += 1;
        check_ser(&k.id, "UserId"); n += 1;
        for (r, chain) in k.secrets.iter() {
            check_ser(r, "Right"); n += 1;
            for s in chain { check_ser(s, "RightSecretKey"); n += 1; }
        }
    }
    for pk in mpk.encryption_keys.values() { check_ser(pk, "RightPublicKey"); n += 1; }
    for e in &encs { check_ser(e, "XEnc"); check_ser(&e.encapsulations, "Encapsulations"); n += 2; }
    // a chain whose revisions have different flavours (the hint of a right was downgraded after a rekey: update_msk
    // drops the KEM key of the newest secret only), and the reverse
    {
        let reload = |m: &MasterSecretKey| MasterSecretKey::deserialize(&m.serialize().unwrap()).unwrap();
        let mut m = reload(&msk);
        let r = m.secrets.iter().find(|(_, c)| c.len() >= 2 && c.iter().all(|(_, k)| k.is_hybridized())).map(|(r, _)| r.clone());
        match r {
            Some(r) => {
                let chain = m.secrets.map.get_mut(&r).unwrap();
                let front = chain.front_mut().unwrap();
                front.1 = front.1.drop_hybridization();
                check_ser(&m, "MasterSecretKey with a chain of mixed flavours (classic front, hybridized older secret)");
                let mut m2 = reload(&msk);
                let chain = m2.secrets.map.get_mut(&r).unwrap();
                let back = chain.back_mut().unwrap();
                back.1 = back.1.drop_hybridization();
                check_ser(&m2, "MasterSecretKey with a chain of mixed flavours (hybridized front, classic older secret)");
                n += 2;
            }
            None => vchk!(false, "C13: the rich history has no hybridized chain with two revisions (the check lost its subject)"),
        }
    }
    // attributes in every combination of hint and status
    for hint in [EncryptionHint::Classic, EncryptionHint::Hybridized] {
        for status in [crate::abe_policy::AttributeStatus::EncryptDecrypt, crate::abe_policy::AttributeStatus::DecryptOnly] {
            let mut a = crate::abe_policy::Attribute::new(hint, 5);
            a.write_status = status;
            let back = crate::abe_policy::Attribute::deserialize(&a.serialize().unwrap()).unwrap();
            vchk!(back == a, "C13/C06: the attribute (hint {hint:?}, status {status:?}) deserializes to {back:?}: a disabled attribute must stay disabled and keep its hint through storage");
            n += 1;
        }
    }
    let (empty_msk, empty_mpk) = cc.setup().unwrap();
    check_ser(&empty_msk, "MasterSecretKey (empty structure)");
    check_ser(&empty_mpk, "MasterPublicKey (empty structure)");
    check_ser(&crate::abe_policy::AccessStructure::new(), "AccessStructure (empty)");
    for md in [None, Some(vec![]), Some(vec![1u8, 2, 3])] {
        let h = crate::CleartextHeader { secret: Secret::<32>::random(&mut *cc.rng()), metadata: md.clone() };
        let bytes = h.serialize().unwrap();
        vchk!(bytes.len() == h.length(), "C13: CleartextHeader: announced length");
        let back = crate::CleartextHeader::deserialize(&bytes).unwrap();
        vchk!(back.secret == h.secret && back.metadata.unwrap_or_default() == md.clone().unwrap_or_default(), "C13: CleartextHeader round-trip (absent and empty metadata are the same value)");
        n += 1;
    }
    println!("VERIF-COUNT serialization__length_write_read_roundtrip {n}");
    done();
}

fn no_panic<R>(what: &str, f: impl FnOnce() -> R) -> R {
    match std::panic::catch_unwind(std::panic::AssertUnwindSafe(f)) {
        Ok(r) => r,
        Err(e) => {
            let msg = e.downcast_ref::<String>().cloned().or_else(|| e.downcast_ref::<&str>().map(|s| s.to_string())).unwrap_or_default();
            panic!("C14: panic while {what}: {msg}")
        }
    }
}
/// deserialize as every object type, then use whatever parses
static CURRENT_INPUT: std::sync::Mutex<String> = std::sync::Mutex::new(String::new());
fn use_bytes(cc: &Covercrypt, keys: &[UserSecretKey], b: &[u8], what: &str) -> u64 {
    if let Ok(mut c) = CURRENT_INPUT.lock() { c.clear(); c.push_str(what); }
    let mut n = 0;
    if let Ok(enc) = no_panic(&format!("deserializing XEnc from {what}"), || XEnc::deserialize(b)) {
        no_panic(&format!("using accessors of an XEnc parsed from {what}"), || (enc.tracing_level(), enc.count()));
        for k in keys { let _ = no_panic(&format!("decapsulating an XEnc parsed from {what}"), || cc.decaps(k, &enc)); }
        n += 1;
    }
    if let Ok(usk) = no_panic(&format!("deserializing UserSecretKey from {what}"), || UserSecretKey::deserialize(b)) {
        no_panic(&format!("using a UserSecretKey parsed from {what}"), || usk.tracing_level());
        n += 1;
    }
    if let Ok(mpk) = no_panic(&format!("deserializing MasterPublicKey from {what}"), || MasterPublicKey::deserialize(b)) {
        no_panic(&format!("using a MasterPublicKey parsed from {what}"), || mpk.tracing_level());
        n += 1;
    }
    if let Ok(msk) = no_panic(&format!("deserializing MasterSecretKey from {what}"), || MasterSecretKey::deserialize(b)) {
        no_panic(&format!("using a MasterSecretKey parsed from {what}"), || (msk.tsk.tracing_level(), msk.mpk().is_ok()));
        n += 1;
    }
    let _ = no_panic(&format!("deserializing EncryptedHeader from {what}"), || EncryptedHeader::deserialize(b));
    let _ = no_panic(&format!("deserializing AccessStructure from {what}"), || crate::abe_policy::AccessStructure::deserialize(b));
    n + 1
}

// @obl props=C14 tier=quick fn=core::serialization::read shape="valid serializations of 6 object kinds: every truncation, every single-byte corruption (3 values), every byte replaced by LEB128 boundary counts up to 2^64-1; each input parsed as every object kind; parsed mutants used in decapsulation and accessors"
#[test]
fn robustness__truncation_corruption_and_huge_counts() {
    // the sweep runs in a worker; a deserialization that does not terminate is reported, not waited for
    let (tx, rx) = std::sync::mpsc::channel();
    std::thread::spawn(move || { let r = std::panic::catch_unwind(robustness_sweep); let _ = tx.send(r.map_err(|e| e.downcast_ref::<String>().cloned().or_else(|| e.downcast_ref::<&str>().map(|s| s.to_string())).unwrap_or_default())); });
    let budget = std::time::Duration::from_secs(std::env::var("VERIF_ROBUSTNESS_BUDGET_S").ok().and_then(|v| v.parse().ok()).unwrap_or(420));
    match rx.recv_timeout(budget) {
        Ok(Ok(())) => {}
        Ok(Err(m)) => panic!("{m}"),
        Err(_) => {
            let cur = CURRENT_INPUT.lock().map(|c| c.clone()).unwrap_or_default();
            panic!("C14: the robustness sweep (normally a few seconds) did not terminate within {} s; it was processing: {cur} (a deserializer or accessor loops, or works in time proportional to an announced count instead of the input)", budget.as_secs())
        }
    }
}
fn robustness_sweep() {
    let (cc, msk, mpk, keys, encs) = rich_world();
    let (_s, hdr) = EncryptedHeader::generate(&cc, &mpk, &ap("DPT::HR"), Some(b"meta"), None).unwrap();
    // small objects so that the sweep stays fast: a classic user key and encapsulation, the structure, a header
    let small_usk = { let mut m2 = MasterSecretKey::deserialize(&msk.serialize().unwrap()).unwrap(); cc.generate_user_secret_key(&mut m2, &ap("SEC::LOW && DPT::HR")).unwrap() };
    let corpus: Vec<(&str, Vec<u8>)> = vec![
        ("XEnc(classic)", encs[0].serialize().unwrap().to_vec()),
        ("XEnc(classic, 3 targets)", encs[2].serialize().unwrap().to_vec()),
        ("UserSecretKey", small_usk.serialize().unwrap().to_vec()),
        ("AccessStructure", msk.access_structure.serialize().unwrap().to_vec()),
        ("EncryptedHeader", hdr.serialize().unwrap().to_vec()),
        ("TracingSecretKey-prefix of MasterSecretKey", msk.serialize().unwrap()[..200].to_vec()),
    ];
    let boundary: Vec<Vec<u8>> = [0u64, 1, 127, 128, 255, 16383, 16384, u32::MAX as u64, (1 << 35), (1 << 62), (1 << 63), u64::MAX - 1, u64::MAX]
        .iter().map(|v| { let mut s = Serializer::new(); s.write_leb128_u64(*v).unwrap(); s.finalize().to_vec() }).collect();
    let mut n = 0u64;
    for (name, bytes) in &corpus {
        for t in 0..bytes.len() {
            n += use_bytes(&cc, &keys, &bytes[..t], &format!("{name} truncated to {t} bytes"));
        }
        for pos in 0..bytes.len() {
            for v in [0x00u8, 0xff, bytes[pos] ^ 0x01] {
                let mut b = bytes.clone();
                b[pos] = v;
                n += use_bytes(&cc, &keys, &b, &format!("{name} with byte {pos} set to {v:#x}"));
            }
            // every count / length field replaced by boundary values (positions that are not counts are corrupted alike)
            for bv in &boundary {
                let mut b = bytes[..pos].to_vec();
                b.extend_from_slice(bv);
                b.extend_from_slice(&bytes[pos + 1..]);
                n += use_bytes(&cc, &keys, &b, &format!("{name} with byte {pos} replaced by the LEB128 count {bv:?}"));
            }
        }
    }
    // full-size objects: truncations and boundary counts only on the first 64 positions
    for (name, bytes) in [("MasterSecretKey", msk.serialize().unwrap().to_vec()), ("MasterPublicKey", mpk.serialize().unwrap().to_vec()), ("XEnc(hybridized)", encs[1].serialize().unwrap().to_vec())] {
        for t in (0..bytes.len()).step_by(97).chain(0..64) {
            n += use_bytes(&cc, &keys, &bytes[..t.min(bytes.len())], &format!("{name} truncated to {t} bytes"));
        }
        for pos in 0..64.min(bytes.len()) {
            for bv in &boundary {
                let mut b = bytes[..pos].to_vec();
                b.extend_from_slice(bv);
                b.extend_from_slice(&bytes[pos + 1..]);
                n += use_bytes(&cc, &keys, &b, &format!("{name} with byte {pos} replaced by the LEB128 count {bv:?}"));
            }
        }
    }
    // degenerate objects
    for b in [vec![], vec![0u8; 1], vec![0u8; 19], vec![0xffu8; 40], { let mut v = vec![0u8; 16]; v.extend_from_slice(&[0, 0, 0]); v }] {
        n += use_bytes(&cc, &keys, &b, &format!("degenerate input {b:?}"));
    }
    println!("VERIF-COUNT robustness__truncation_corruption_and_huge_counts {n}");
    done();
}

// ---------------------------------------------------------------------------
// C16 freshness, C17 tracing, C18 re-encapsulation, C08 signature
// ---------------------------------------------------------------------------

// @obl props=C16 tier=quick fn=core::primitives::encaps shape="200 repeated calls with identical arguments (classic and hybridized targets), 2 instances: secrets, tags, traps, masked seeds, nonces, user ids, published keys pairwise distinct"
#[test]
fn freshness__repeated_calls_never_repeat() {
    let cc = Covercrypt::default();
    let cc2 = Covercrypt::default();
    let (mut msk, mpk) = cc_keygen(&cc, false).unwrap();
    let reps = 200;
    let mut n = 0u64;
    for e in ["SEC::LOW && DPT::FIN", "SEC::TOP && DPT::FIN"] {
        let (mut secrets, mut tags, mut traps, mut seeds) = (BTreeSet::new(), BTreeSet::new(), BTreeSet::new(), BTreeSet::new());
        for i in 0..reps {
            let (ss, enc) = if i % 2 == 0 { cc.encaps(&mpk, &ap(e)).unwrap() } else { cc2.encaps(&mpk, &ap(e)).unwrap() };
            vchk!(secrets.insert(ss.to_vec()), "C16: two encapsulations for '{e}' share their secret");
            vchk!(tags.insert(enc.tag), "C16: two encapsulations for '{e}' share their tag");
            vchk!(traps.insert(enc.c.serialize_all()), "C16: two encapsulations for '{e}' share their traps");
            let fs: Vec<[u8; 32]> = match &enc.encapsulations { Encapsulations::CEncs(v) => v.clone(), Encapsulations::HEncs(v) => v.iter().map(|x| x.1).collect() };
            for f in fs { vchk!(seeds.insert(f), "C16: two encapsulations for '{e}' share a masked seed"); }
            n += 1;
        }
    }
    // instances created back to back (same clock tick, same process, same thread) are independent: the same FIRST call
    // on each of them never gives the same result
    {
        let fresh: Vec<Covercrypt> = (0..8).map(|_| Covercrypt::default()).collect();
        let (mut first_secrets, mut first_setups) = (BTreeSet::new(), BTreeSet::new());
        for c in &fresh {
            let (ss, _) = c.encaps(&mpk, &ap("SEC::LOW && DPT::FIN")).unwrap();
            vchk!(first_secrets.insert(ss.to_vec()), "C16: two instances created one after the other produce the same first encapsulated secret (their random streams are not independent)");
            n += 1;
        }
        for _ in 0..4 {
            let c = Covercrypt::default();
            let (m, _) = cc_keygen(&c, false).unwrap();
            vchk!(first_setups.insert(m.serialize().unwrap().to_vec()), "C16: two instances created one after the other set up the same master key");
            n += 1;
        }
    }
    let usk = cc.generate_user_secret_key(&mut msk, &ap("SEC::TOP && DPT::FIN")).unwrap();
    let (mut nonces, mut hn, mut hs) = (BTreeSet::new(), BTreeSet::new(), BTreeSet::new());
    for _ in 0..reps {
        let ctx = PkeAc::<{ Aes256Gcm::KEY_LENGTH }, Aes256Gcm>::encrypt(&cc, &mpk, &ap("DPT::FIN"), b"same plaintext").unwrap();
        vchk!(nonces.insert(ctx.1[..12].to_vec()), "C16: two PKE ciphertexts share their AEAD nonce");
        let (s, h) = EncryptedHeader::generate(&cc, &mpk, &ap("DPT::FIN"), Some(b"same metadata"), None).unwrap();
        vchk!(hn.insert(h.encrypted_metadata.as_ref().unwrap()[..12].to_vec()), "C16: two encrypted headers share their AEAD nonce");
        vchk!(hs.insert(s.to_vec()), "C16: two headers share their secret");
        let _ = h.decrypt(&cc, &usk, None).unwrap().unwrap();
        n += 1;
    }
    // the AE layer itself: identical key and plaintext, the nonce (first 12 bytes) still never repeats
    {
        use cosmian_crypto_core::{reexport::rand_core::SeedableRng, CsRng, SymmetricKey};
        let mut rng = CsRng::from_entropy();
        let key = SymmetricKey::<32>::derive(&Secret::<32>::random(&mut rng), b"k").unwrap_or_else(|_| panic!("kdf"));
        let mut seen = BTreeSet::new();
        for _ in 0..50 {
            let c = <Aes256Gcm as crate::traits::AE<32>>::encrypt(&mut rng, &key, b"same plaintext").unwrap();
            vchk!(seen.insert(c[..12].to_vec()), "C16: two AE ciphertexts under the same key and plaintext share their nonce");
            n += 1;
        }
    }
    // re-encapsulation draws fresh randomness too, and does not disturb later encapsulations
    {
        let (_s0, e0) = cc.encaps(&mpk, &ap("SEC::LOW && DPT::FIN")).unwrap();
        let (mut rs, mut rt) = (BTreeSet::new(), BTreeSet::new());
        for i in 0..40 {
            let (s, e) = if i % 3 == 2 { cc.encaps(&mpk, &ap("SEC::LOW && DPT::FIN")).unwrap() } else { cc.recaps(&msk, &mpk, &e0).unwrap() };
            vchk!(rs.insert(s.to_vec()), "C16: a re-encapsulation (or the encapsulation following it) repeats a secret");
            vchk!(rt.insert(e.tag), "C16: a re-encapsulation (or the encapsulation following it) repeats a tag");
            n += 1;
        }
    }
    // one shared instance used from 8 threads (barrier-synchronised rounds): still no repetition
    {
        use std::sync::{Arc, Barrier, Mutex};
        let shared = Arc::new(Covercrypt::default());
        let (_m, mpk_t) = cc_keygen(&shared, false).unwrap();
        let mpk_t = Arc::new(mpk_t);
        let seen = Arc::new(Mutex::new((BTreeSet::new(), BTreeSet::new(), 0usize)));
        let nonces = Arc::new(Mutex::new((BTreeSet::<Vec<u8>>::new(), 0usize)));
        let barrier = Arc::new(Barrier::new(8));
        let hs: Vec<_> = (0..8).map(|_| {
            let (c, m, s, b, nn) = (shared.clone(), mpk_t.clone(), seen.clone(), barrier.clone(), nonces.clone());
            std::thread::spawn(move || {
                for _ in 0..40 {
                    b.wait();
                    let (ss, e) = c.encaps(&m, &AccessPolicy::parse("SEC::LOW && DPT::FIN").unwrap()).unwrap();
                    // headers with metadata and PKE ciphertexts draw their AEAD nonce from the same shared generator
                    let (_s, h) = EncryptedHeader::generate(&c, &m, &AccessPolicy::parse("DPT::FIN").unwrap(), Some(b"same metadata"), None).unwrap();
                    let ctx = PkeAc::<{ Aes256Gcm::KEY_LENGTH }, Aes256Gcm>::encrypt(&*c, &m, &AccessPolicy::parse("DPT::FIN").unwrap(), b"same plaintext").unwrap();
                    {
                        let mut g = nn.lock().unwrap();
                        g.0.insert(h.encrypted_metadata.as_ref().unwrap()[..12].to_vec());
                        g.0.insert(ctx.1[..12].to_vec());
                        g.1 += 2;
                    }
                    let mut g = s.lock().unwrap();
                    g.0.insert(ss.to_vec());
                    g.1.insert(e.tag);
                    g.2 += 1;
                }
            })
        }).collect();
        for h in hs { h.join().unwrap(); }
        let g = seen.lock().unwrap();
        vchk!(g.0.len() == g.2 && g.1.len() == g.2, "C16: {} concurrent encapsulations on a shared instance produced only {} distinct secrets / {} distinct tags", g.2, g.0.len(), g.1.len());
        n += g.2 as u64;
        let g = nonces.lock().unwrap();
        vchk!(g.0.len() == g.1, "C16: {} header / PKE encryptions made concurrently on a shared instance used only {} distinct AEAD nonces", g.1, g.0.len());
    }
    let mut ids = BTreeSet::new();
    for _ in 0..reps {
        let k = cc.generate_user_secret_key(&mut msk, &ap("DPT::FIN")).unwrap();
        vchk!(ids.insert(k.id.serialize().unwrap().to_vec()), "C16/C17: two user keys share their identifier");
        n += 1;
    }
    let mut published: BTreeSet<Vec<u8>> = mpk.encryption_keys.values().map(|k| k.serialize().unwrap().to_vec()).collect();
    for _ in 0..20 {
        let mpk2 = cc.rekey(&mut msk, &ap("DPT::FIN")).unwrap();
        let r = msk.access_structure.ap_to_enc_rights(&ap("DPT::FIN")).unwrap().into_iter().next().unwrap();
        vchk!(published.insert(mpk2.encryption_keys[&r].serialize().unwrap().to_vec()), "C16: a rekey publishes a public value that was published before");
        n += 1;
    }
    // ... also once the attribute was disabled in between (the newest secret, not an older activated one, is what counts)
    {
        let c = Covercrypt::default();
        let (mut m, p0) = cc_keygen(&c, false).unwrap();
        let mut seen: BTreeSet<Vec<u8>> = p0.encryption_keys.values().map(|k| k.serialize().unwrap().to_vec()).collect();
        let mut publish = |p: &MasterPublicKey, what: &str, n: &mut u64| {
            for k in p.encryption_keys.values() { seen.insert(k.serialize().unwrap().to_vec()); }
            let _ = what; *n += 1;
        };
        let p1 = c.rekey(&mut m, &ap("DPT::FIN")).unwrap();
        publish(&p1, "rekey", &mut n);
        m.access_structure.disable_attribute(&QualifiedAttribute::new("DPT", "FIN")).unwrap();
        let p2 = c.update_msk(&mut m).unwrap();
        let r = m.access_structure.ap_to_enc_rights(&ap("DPT::FIN")).unwrap().into_iter().next().unwrap();
        vchk!(!p2.encryption_keys.contains_key(&r), "C16/C06: after disabling, nothing is published for the right (in particular not a value published before the rekey)");
        let p3 = c.rekey(&mut m, &ap("DPT::FIN")).unwrap();
        vchk!(!p3.encryption_keys.contains_key(&r), "C16/C06: a rekey after disabling publishes nothing for the right, never an older value again");
        n += 2;
    }
    println!("VERIF-COUNT freshness__repeated_calls_never_repeat {n}");
    done();
}
trait SerAll { fn serialize_all(&self) -> Vec<u8>; }
impl SerAll for Vec<<ElGamal as Nike>::PublicKey> {
    fn serialize_all(&self) -> Vec<u8> { self.iter().flat_map(|p| p.serialize().unwrap().to_vec()).collect() }
}

// @obl props=C10,C13,C17 tier=quick fn=core::TracingSecretKey::generate_user_id shape="30 keys generated / refreshed (both flags) / master key round-tripped: id registered, distinct, validates against the tracers; ps and tpk equal the public tracers; unknown id refused"
#[test]
fn tracing__issued_keys_are_registered_and_valid() {
    let cc = Covercrypt::default();
    let (mut msk, mpk) = cc_keygen(&cc, false).unwrap();
    let mut n = 0u64;
    let tracers: Vec<_> = msk.tsk.tracers.iter().map(|(_, p)| p.clone()).collect();
    vchk!(mpk.tpk.0.iter().cloned().collect::<Vec<_>>() == tracers, "C17: the public key carries exactly the public tracers of the master key");
    let mut keys = vec![];
    for i in 0..30 {
        let mut k = cc.generate_user_secret_key(&mut msk, &ap(["DPT::FIN", "SEC::TOP", "*"][i % 3])).unwrap();
        if i % 3 == 1 { cc.rekey(&mut msk, &ap("DPT::FIN")).unwrap(); cc.refresh_usk(&mut msk, &mut k, i % 2 == 0).unwrap(); }
        if i % 5 == 0 { msk = MasterSecretKey::deserialize(&msk.serialize().unwrap()).unwrap(); }
        keys.push(k);
    }
    for (i, k) in keys.iter().enumerate() {
        vchk!(msk.tsk.is_known(&k.id), "C17: the identifier of issued key {i} is not recorded in the master key");
        vchk!(msk.tsk._validate_user_id(&k.id), "C17: the markers of key {i} combined with the tracers do not give the binding scalar");
        vchk!(k.ps == tracers, "C17: the tracing points of key {i} are not the public tracers of the master key");
        vchk!(keys.iter().filter(|o| o.id == k.id).count() == 1, "C17: two issued keys share an identifier");
        n += 1;
    }
    vchk!(msk.tsk.users.len() == keys.len(), "C17: exactly the issued identifiers are recorded");
    // higher tracing levels: issued keys validate and decapsulate
    for level in [MIN_TRACING_LEVEL + 1, MIN_TRACING_LEVEL + 3] {
        let mut m2 = primitives::setup(level, &mut *cc.rng()).unwrap();
        crate::abe_policy::gen_structure(&mut m2.access_structure, false).unwrap();
        let mpk2 = cc.update_msk(&mut m2).unwrap();
        let (ss, enc) = cc.encaps(&mpk2, &ap("DPT::MKG && SEC::TOP")).unwrap();
        for i in 0..3 {
            let mut k = cc.generate_user_secret_key(&mut m2, &ap("DPT::MKG && SEC::TOP")).unwrap();
            vchk!(m2.tsk._validate_user_id(&k.id) && m2.tsk.is_known(&k.id), "C17: level {level}: issued key #{i} does not satisfy the tracing relation or is not registered");
            vchk!(cc.decaps(&k, &enc).unwrap().as_ref() == Some(&ss), "C17/C01: level {level}: issued key #{i} does not open an encapsulation it is authorized for");
            cc.refresh_usk(&mut m2, &mut k, i % 2 == 0).unwrap();
            vchk!(m2.tsk._validate_user_id(&k.id) && cc.decaps(&k, &enc).unwrap().as_ref() == Some(&ss), "C17: level {level}: refreshed key #{i} is invalid");
            n += 1;
        }
    }
    // a key of another master key is refused and nothing changes
    let (mut other, _) = cc_keygen(&cc, false).unwrap();
    other.signing_key = None;
    msk.signing_key = None;
    let mut foreign = cc.generate_user_secret_key(&mut other, &ap("DPT::FIN")).unwrap();
    let before = (foreign.serialize().unwrap().to_vec(), msk.serialize().unwrap().to_vec());
    vchk!(cc.refresh_usk(&mut msk, &mut foreign, true).is_err(), "C17/C08: a key whose identifier the master key does not know is refused");
    vchk!((foreign.serialize().unwrap().to_vec(), msk.serialize().unwrap().to_vec()) == before, "C10/C17: a refused refresh modifies neither key (the issued key keeps its registered identifier)");
    println!("VERIF-COUNT tracing__issued_keys_are_registered_and_valid {n}");
    done();
}

// @obl props=C18 tier=quick fn=api::Covercrypt::recaps shape="originals with 1-3 targets (classic / hybridized / mixed) made under the first public key; after nothing / rekey / rekey+prune / disable / delete: audience of the re-encapsulation = rights of the original the master key still opens and publishes; 6 keys (refreshed and stale)"
#[test]
fn recaps__preserves_the_audience() {
    let mut n = 0u64;
    let originals = ["SEC::LOW && DPT::FIN", "(SEC::LOW && DPT::FIN) || DPT::HR", "(SEC::TOP && DPT::FIN) || (SEC::TOP && DPT::MKG)", "DPT::HR || DPT::MKG || DPT::RD",
        // mixed flavours: classic encapsulation targeting a hybridized right as well
        "(SEC::TOP && DPT::FIN) || (SEC::LOW && DPT::HR)", "(SEC::TOP && DPT::MKG) || DPT::RD"];
    let users = ["SEC::TOP && DPT::FIN", "DPT::HR", "SEC::LOW && DPT::MKG", "SEC::TOP && DPT::MKG", "DPT::RD", "SEC::LOW && DPT::FIN"];
    for scenario in 0..8 {
        let cc = Covercrypt::default();
        let (mut msk, mpk0) = cc_keygen(&cc, false).unwrap();
        let mut keys: Vec<UserSecretKey> = users.iter().map(|u| cc.generate_user_secret_key(&mut msk, &ap(u)).unwrap()).collect();
        let encs: Vec<_> = originals.iter().map(|e| (*e, cc.encaps(&mpk0, &ap(e)).unwrap())).collect();
        let mut model = Model::from_msk(&msk);
        let orig_models: Vec<MEnc> = originals.iter().map(|e| model.encaps(&rights_of(&msk.access_structure, e, false)).unwrap()).collect();
        let mpk = match scenario {
            0 => mpk0,
            1 => { model.rekey(&rights_of(&msk.access_structure, "DPT::FIN", true)); cc.rekey(&mut msk, &ap("DPT::FIN")).unwrap() }
            2 => { let r = rights_of(&msk.access_structure, "DPT::FIN", true); model.rekey(&r); model.prune(&r); cc.rekey(&mut msk, &ap("DPT::FIN")).unwrap(); cc.prune_master_secret_key(&mut msk, &ap("DPT::FIN")).unwrap() }
            3 => { msk.access_structure.disable_attribute(&QualifiedAttribute::new("DPT", "HR")).unwrap(); let m = cc.update_msk(&mut msk).unwrap(); model.update(&omega_of(&msk.access_structure)); m }
            4 => { msk.access_structure.del_attribute(&QualifiedAttribute::new("DPT", "HR")).unwrap(); let m = cc.update_msk(&mut msk).unwrap(); model.update(&omega_of(&msk.access_structure)); m }
            // an attribute shared by classic, mixed and all-hybridized originals is disabled / deleted: the other targets survive
            5 => { msk.access_structure.disable_attribute(&QualifiedAttribute::new("DPT", "FIN")).unwrap(); let m = cc.update_msk(&mut msk).unwrap(); model.update(&omega_of(&msk.access_structure)); m }
            6 => { msk.access_structure.del_attribute(&QualifiedAttribute::new("DPT", "FIN")).unwrap(); let m = cc.update_msk(&mut msk).unwrap(); model.update(&omega_of(&msk.access_structure)); m }
            // rekey, then disable: the chain holds an older secret still flagged active behind a deactivated front
            _ => { model.rekey(&rights_of(&msk.access_structure, "DPT::FIN", true)); cc.rekey(&mut msk, &ap("DPT::FIN")).unwrap(); msk.access_structure.disable_attribute(&QualifiedAttribute::new("DPT", "FIN")).unwrap(); let m = cc.update_msk(&mut msk).unwrap(); model.update(&omega_of(&msk.access_structure)); m }
        };
        // half of the keys are refreshed
        let mut mkeys: Vec<MKey> = users.iter().map(|u| MKey { chains: BTreeMap::new() }).collect();
        for (i, u) in users.iter().enumerate() {
            // model keys as generated at the beginning: generation 0 of every right
            let rs = cc_rights(u);
            mkeys[i] = MKey { chains: rs.into_iter().map(|r| (r, vec![0u32])).collect() };
            if i % 2 == 0 { cc.refresh_usk(&mut msk, &mut keys[i], true).unwrap(); model.refresh(&mut mkeys[i], true); }
        }
        for ((e, (_ss, enc)), om) in encs.iter().zip(orig_models.iter()) {
            // rights of the original the master key still opens (activated secret of the right generation) ...
            let opened: BTreeSet<Vec<u8>> = om.targets.iter().filter(|(r, g)| model.master.get(*r).map_or(false, |c| c.iter().any(|(gg, act)| gg == *g && *act))).map(|(r, _)| r.clone()).collect();
            let res = cc.recaps(&msk, &mpk, enc);
            if opened.is_empty() {
                vchk!(res.is_err(), "C18: scenario {scenario}: re-encapsulating '{e}' must fail when none of its rights can be recovered");
                n += 1;
                continue;
            }
            if !opened.iter().all(|r| model.published(r)) {
                vchk!(res.is_err(), "C18/C06: scenario {scenario}: re-encapsulating '{e}' must fail when a recovered right is not published");
                n += 1;
                continue;
            }
            let (ss2, enc2) = res.unwrap_or_else(|err| panic!("C18: scenario {scenario}: re-encapsulating '{e}' must succeed: {err}"));
            let me2 = model.encaps(&opened).unwrap();
            for (i, k) in keys.iter().enumerate() {
                let got = cc.decaps(k, &enc2).unwrap();
                if can_open(&mkeys[i], &me2) {
                    vchk!(got.as_ref() == Some(&ss2), "C18: scenario {scenario}: the key for '{}' must open the re-encapsulation of '{e}' to the new secret", users[i]);
                } else {
                    vchk!(got.is_none(), "C18: scenario {scenario}: the key for '{}' must not open the re-encapsulation of '{e}'", users[i]);
                }
                n += 1;
            }
            vchk!(ss2 != encs.iter().find(|x| x.0 == *e).unwrap().1 .0, "C18/C16: the re-encapsulation carries a new secret");
        }
    }
    println!("VERIF-COUNT recaps__preserves_the_audience {n}");
    done();
}
fn cc_rights(u: &str) -> BTreeSet<Vec<u8>> {
    let cc = Covercrypt::default();
    let (msk, _) = cc_keygen(&cc, false).unwrap();
    rights_of(&msk.access_structure, u, true)
}

// @obl props=C08,C09,C10,C17 tier=quick fn=core::primitives::refresh shape="issued keys (1-2 rights, 1-2 revisions, classic and hybridized): rights removed / duplicated / reordered / renamed, secrets moved between rights and chains, flavour changed, id altered, signature stripped / altered, key of another master key, splice of two keys"
#[test]
fn signature__structural_tampering_is_rejected() {
    let cc = Covercrypt::default();
    let (mut msk, _mpk) = cc_keygen(&cc, false).unwrap();
    let (mut other, _) = cc_keygen(&cc, false).unwrap();
    let mut k1 = cc.generate_user_secret_key(&mut msk, &ap("SEC::TOP && DPT::FIN")).unwrap();
    let k2 = cc.generate_user_secret_key(&mut msk, &ap("DPT::HR")).unwrap();
    let kf = cc.generate_user_secret_key(&mut other, &ap("DPT::HR")).unwrap();
    cc.rekey(&mut msk, &ap("SEC::LOW && DPT::FIN")).unwrap();
    cc.refresh_usk(&mut msk, &mut k1, true).unwrap();
    let mut n = 0u64;
    let mut mutants: Vec<(String, UserSecretKey)> = vec![];
    let chains = |k: &UserSecretKey| -> Vec<(Right, LinkedList<RightSecretKey>)> { k.secrets.iter().map(|(r, c)| (r.clone(), c.clone())).collect() };
    let rebuild = |k: &UserSecretKey, cs: Vec<(Right, LinkedList<RightSecretKey>)>| UserSecretKey { id: k.id.clone(), ps: k.ps.clone(), secrets: cs.into_iter().collect(), signature: k.signature };
    let c1 = chains(&k1);
    { let mut c = c1.clone(); c.pop(); mutants.push(("right removed".into(), rebuild(&k1, c))); }
    { let mut c = c1.clone(); c.push(c1[0].clone()); mutants.push(("right duplicated".into(), rebuild(&k1, c))); }
    { let mut c = c1.clone(); c.reverse(); mutants.push(("rights reordered".into(), rebuild(&k1, c))); }
    { let mut c = c1.clone(); c[0].0 = Right(vec![0x7f]); mutants.push(("right renamed".into(), rebuild(&k1, c))); }
    { let mut c = c1.clone(); let a = c[0].1.clone(); c[0].1 = c[1].1.clone(); c[1].1 = a; mutants.push(("secrets swapped between rights".into(), rebuild(&k1, c))); }
    if let Some(i) = c1.iter().position(|x| x.1.len() > 1) {
        let mut c = c1.clone(); let mut l: Vec<_> = c[i].1.iter().cloned().collect(); l.reverse(); c[i].1 = l.into_iter().collect(); mutants.push(("revisions reordered inside a chain".into(), rebuild(&k1, c)));
        let mut c = c1.clone(); let last = c[i].1.pop_back().unwrap(); let j = (i + 1) % c.len(); c[j].1.push_back(last); mutants.push(("secret moved to another chain".into(), rebuild(&k1, c)));
    }
    for i in 0..c1.len().saturating_sub(1) {
        // the last secret of a chain becomes the first secret of the next chain: the flat sequence of secrets is unchanged
        if c1[i].1.len() > 1 && !c1[i + 1].0 .0.is_empty() {
            let mut c = c1.clone(); let last = c[i].1.pop_back().unwrap(); c[i + 1].1.push_front(last);
            mutants.push((format!("last secret of chain {i} moved to the front of the next chain"), rebuild(&k1, c)));
        }
        if c1[i + 1].1.len() > 1 && !c1[i + 1].0 .0.is_empty() {
            let mut c = c1.clone(); let first = c[i + 1].1.pop_front().unwrap(); c[i].1.push_back(first);
            mutants.push((format!("first secret of chain {} moved to the end of the previous chain", i + 1), rebuild(&k1, c)));
        }
    }
    if let Some(i) = c1.iter().position(|x| x.1.iter().any(|s| s.is_hybridized())) {
        let mut c = c1.clone(); c[i].1 = c[i].1.iter().map(|s| s.drop_hybridization()).collect(); mutants.push(("flavour changed (KEM key dropped)".into(), rebuild(&k1, c)));
    }
    mutants.push(("all rights removed".into(), rebuild(&k1, vec![])));
    { let mut k = rebuild(&k1, vec![]); k.signature = None; mutants.push(("all rights removed and signature stripped".into(), k)); }
    { let mut k = k1.clone(); k.id = k2.id.clone(); mutants.push(("identifier of another issued key".into(), k)); }
    { let mut k = k1.clone(); k.signature = None; mutants.push(("signature stripped".into(), k)); }
    { let mut k = k1.clone(); let mut s = k.signature.unwrap(); s[5] ^= 1; k.signature = Some(s); mutants.push(("signature altered".into(), k)); }
    { let mut k = k1.clone(); k.signature = k2.signature; mutants.push(("signature of another issued key".into(), k)); }
    { let mut k = k1.clone(); let mut s = k.signature.unwrap(); s[0] ^= 0x01; s[1] ^= 0x01; k.signature = Some(s); mutants.push(("signature with two bytes xored by the same value".into(), k)); }
    { let mut k = k1.clone(); let mut s = k.signature.unwrap(); s.reverse(); k.signature = Some(s); mutants.push(("signature reversed".into(), k)); }
    { let mut c = c1.clone(); c.extend(chains(&k2)); mutants.push(("splice: rights of two issued keys".into(), rebuild(&k1, c))); }
    mutants.push(("key issued by another master key".into(), kf));
    // every tampered key is presented as built and as an attacker would send it: through its serialized form
    let wire: Vec<(String, UserSecretKey)> = mutants.iter().filter_map(|(name, m)| {
        let b = m.serialize().ok()?;
        UserSecretKey::deserialize(&b).ok().map(|k| (format!("{name} (sent in serialized form)"), k))
    }).collect();
    mutants.extend(wire);
    for (name, m) in mutants.iter_mut() {
        for keep in [true, false] {
            let before = (m.serialize().unwrap().to_vec(), msk.serialize().unwrap().to_vec());
            let r = cc.refresh_usk(&mut msk, m, keep);
            let tag = if name.starts_with("identifier") { "C08/C09/C17" } else { "C08/C09" };
            vchk!(r.is_err(), "{tag}: a user key with {name} is accepted for refresh (keep = {keep}){}", if name.starts_with("identifier") { ": the re-issued key shares its identifier with another issued key" } else { "" });
            vchk!((m.serialize().unwrap().to_vec(), msk.serialize().unwrap().to_vec()) == before, "C08/C10: a refused refresh ({name}) modified the user key or the master key");
            n += 1;
        }
    }
    // a master key restored from a backup does not accept the keys issued after the backup was taken (same signing key and
    // tracers, identifier not in its registry), and is not modified by the attempt
    {
        let saved = msk.serialize().unwrap().to_vec();
        let late = cc.generate_user_secret_key(&mut msk, &ap("DPT::HR")).unwrap();
        for keep in [true, false] {
            let mut old_msk = MasterSecretKey::deserialize(&saved).unwrap();
            let mut k = late.clone();
            let saved = old_msk.serialize().unwrap().to_vec(); // (the order of map entries is per instance)
            let r = cc.refresh_usk(&mut old_msk, &mut k, keep);
            vchk!(r.is_err(), "C08/C17: a key issued after the master key was saved is refreshed by the restored master key, which never issued it (keep = {keep})");
            vchk!(k == late && old_msk.serialize().unwrap().to_vec() == saved, "C08/C10: a refused refresh (identifier unknown to the restored master key) modified the user key or the master key");
            n += 1;
        }
    }
    // issued keys are accepted
    for keep in [true, false] {
        let mut a = k1.clone();
        vchk!(cc.refresh_usk(&mut msk, &mut a, keep).is_ok(), "C08/C09: an issued key is accepted for refresh");
        let mut b = a.clone();
        vchk!(cc.refresh_usk(&mut msk, &mut b, keep).is_ok(), "C08: a key issued by an earlier refresh is accepted");
        n += 2;
    }
    println!("VERIF-COUNT signature__structural_tampering_is_rejected {n}");
    done();
}

// @obl props=C08 tier=quick fn=core::primitives::sign shape="re-framing: bytes shifted between a right's name and the neighbouring secret (2 rights with 1-byte names, classic secrets)"
#[test]
fn signature__reframing_of_names_and_secrets_is_rejected() {
    // find a key whose first secret, shifted by one byte, is still a valid scalar encoding
    let cc = Covercrypt::default();
    let (mut msk, _mpk) = cc_keygen(&cc, false).unwrap();
    let mut n = 0u64;
    let mut found = false;
    for _ in 0..20 {
        let k = cc.generate_user_secret_key(&mut msk, &ap("DPT::FIN")).unwrap();
        let cs: Vec<(Right, LinkedList<RightSecretKey>)> = k.secrets.iter().map(|(r, c)| (r.clone(), c.clone())).collect();
        for i in 0..cs.len().saturating_sub(1) {
            let (a, b) = (&cs[i], &cs[i + 1]);
            if a.1.len() != 1 || a.1.front().unwrap().is_hybridized() || b.0 .0.is_empty() { continue; }
            // signed stream: .. name_i || scalar_i || name_{i+1} || .. ; shifted by one byte:
            // name_i' = name_i || scalar_i[0], scalar_i' = scalar_i[1..] || name_{i+1}[0], name_{i+1}' = name_{i+1}[1..]
            let sc = a.1.front().unwrap().serialize().unwrap()[1..].to_vec();
            let mut name_i = a.0 .0.clone(); name_i.push(sc[0]);
            let mut sc2 = sc[1..].to_vec(); sc2.push(b.0 .0[0]);
            let mut ser = vec![0u8]; ser.extend_from_slice(&sc2);
            let new_secret = match RightSecretKey::deserialize(&ser) { Ok(x) => x, Err(_) => continue };
            let mut forged_chains = cs.clone();
            forged_chains[i] = (Right(name_i), LinkedList::from_iter([new_secret]));
            forged_chains[i + 1].0 = Right(b.0 .0[1..].to_vec());
            let mut forged = UserSecretKey { id: k.id.clone(), ps: k.ps.clone(), secrets: forged_chains.into_iter().collect(), signature: k.signature };
            found = true;
            let before = forged.serialize().unwrap().to_vec();
            let r = cc.refresh_usk(&mut msk, &mut forged, true);
            vchk!(r.is_err(), "C08: a user key whose bytes were shifted between a right's name and the neighbouring secret (same signed byte stream, different rights and secrets) is accepted for refresh");
            vchk!(r.is_ok() || forged.serialize().unwrap().to_vec() == before, "C08/C10: a refused refresh modified the user key");
            n += 1;
        }
        if found { break; }
    }
    assert!(found, "no candidate key found for the re-framing experiment");
    println!("VERIF-COUNT signature__reframing_of_names_and_secrets_is_rejected {n}");
    done();
}
