//! Native bounded contract checks for the policy -> rights layer (child module of `access_structure`).
//! Oracle taken from the property statements (C01/C02): a user conjunction covers a point iff, for every
//! dimension it mentions, the point has no attribute in that dimension or an attribute that is the same
//! (unordered dimension) / the same or lower (hierarchy); '*' covers everything.
use super::*;
use crate::verif_native::{done, vchk};
use crate::abe_policy::{AccessPolicy, Attribute, AttributeStatus, Dimension, EncryptionHint, QualifiedAttribute, Right};
use std::collections::{BTreeSet, HashMap, HashSet};

/// shape of a test structure: per dimension (ordered?, number of attributes)
fn build(shape: &[(bool, usize)], hints: u32) -> AccessStructure {
    let mut s = AccessStructure::new();
    let mut k = 0;
    for (d, (ordered, n)) in shape.iter().enumerate() {
        let dn = format!("D{d}");
        if *ordered { s.add_hierarchy(dn.clone()).unwrap() } else { s.add_anarchy(dn.clone()).unwrap() }
        let mut prev: Option<String> = None;
        for a in 0..*n {
            let an = format!("a{a}");
            let hint = if (hints >> k) & 1 == 1 { EncryptionHint::Hybridized } else { EncryptionHint::Classic };
            k += 1;
            s.add_attribute(QualifiedAttribute::new(&dn, &an), hint, prev.as_deref()).unwrap();
            prev = Some(an);
        }
    }
    s
}

/// rank of an attribute inside its dimension (hierarchies: 0 = lowest) and its id
fn rank_and_id(s: &AccessStructure, qa: &QualifiedAttribute) -> (usize, usize) {
    let d = s.dimensions.get(&qa.dimension).unwrap();
    let names: Vec<&String> = d.get_attributes_name().collect();
    let rank = names.iter().position(|n| **n == qa.name).unwrap();
    (rank, d.get_attribute(&qa.name).unwrap().get_id())
}

/// all points of the structure: at most one attribute per dimension
fn points(s: &AccessStructure) -> Vec<Vec<QualifiedAttribute>> {
    let mut dims: Vec<&String> = s.dimensions.keys().collect();
    dims.sort();
    let mut pts: Vec<Vec<QualifiedAttribute>> = vec![vec![]];
    for d in dims {
        let mut next = pts.clone();
        for name in s.dimensions[d].get_attributes_name() {
            for p in &pts {
                let mut q = p.clone();
                q.push(QualifiedAttribute::new(d, name));
                next.push(q);
            }
        }
        pts = next;
    }
    pts
}

fn right_of(s: &AccessStructure, pt: &[QualifiedAttribute]) -> Right {
    Right::from_point(pt.iter().map(|qa| rank_and_id(s, qa).1).collect()).unwrap()
}

/// the statement's cover relation for one user term
fn term_covers(s: &AccessStructure, term: &QualifiedAttribute, pt: &[QualifiedAttribute]) -> bool {
    match pt.iter().find(|q| q.dimension == term.dimension) {
        None => true,
        Some(q) => {
            if s.dimensions[&term.dimension].is_ordered() {
                rank_and_id(s, q).0 <= rank_and_id(s, term).0
            } else {
                q.name == term.name
            }
        }
    }
}
fn sem(s: &AccessStructure, p: &AccessPolicy, pt: &[QualifiedAttribute]) -> bool {
    match p {
        AccessPolicy::Broadcast => true,
        AccessPolicy::Term(t) => term_covers(s, t, pt),
        AccessPolicy::Conjunction(a, b) => sem(s, a, pt) && sem(s, b, pt),
        AccessPolicy::Disjunction(a, b) => sem(s, a, pt) || sem(s, b, pt),
    }
}
fn all_attrs(s: &AccessStructure) -> Vec<QualifiedAttribute> {
    let mut v: Vec<_> = s.attributes().collect();
    v.sort();
    v
}
/// true iff some conjunction of the DNF names two different attributes of one dimension
fn has_same_dimension_clash(p: &AccessPolicy) -> bool {
    p.to_dnf().iter().any(|c| c.iter().any(|a| c.iter().any(|b| a.dimension == b.dimension && a.name != b.name)))
}
/// user policies: '*', every term, every conjunction / disjunction of two terms, and (t1 && t2) || t3 on a sample
fn policies(s: &AccessStructure) -> Vec<AccessPolicy> {
    // built with the constructors, not with the crate's `&` / `|` operators (which simplify and are code under test)
    let t = |a: &QualifiedAttribute| AccessPolicy::Term(a.clone());
    let and = |a: AccessPolicy, b: AccessPolicy| AccessPolicy::Conjunction(Box::new(a), Box::new(b));
    let or = |a: AccessPolicy, b: AccessPolicy| AccessPolicy::Disjunction(Box::new(a), Box::new(b));
    let at = all_attrs(s);
    let mut v = vec![AccessPolicy::Broadcast];
    for a in &at {
        v.push(t(a));
        // '*' as an operand
        v.push(and(t(a), AccessPolicy::Broadcast));
        v.push(and(AccessPolicy::Broadcast, t(a)));
        v.push(or(t(a), AccessPolicy::Broadcast));
        for b in &at {
            if a < b {
                v.push(and(t(a), t(b)));
                v.push(or(t(a), t(b)));
                // a conjunction that is a sub-conjunction of another one
                v.push(or(t(a), and(t(a), t(b))));
                v.push(or(and(t(a), t(b)), t(b)));
                for c in &at {
                    if b < c {
                        v.push(and(t(a), or(t(b), t(c))));
                    }
                    if c != a && c != b {
                        // a specific clause first, then a clause that may lie inside its space (lower rank, fewer dimensions), and the reverse
                        v.push(or(and(t(a), t(b)), t(c)));
                        v.push(or(t(c), and(t(a), t(b))));
                    }
                }
            }
        }
    }
    v
}
const SHAPES: &[&[(bool, usize)]] = &[
    &[(true, 3)],
    &[(false, 3)],
    &[(true, 2), (false, 2)],
    &[(true, 3), (false, 2)],
    &[(false, 2), (false, 2)],
    &[(true, 2), (true, 2)],
    &[(true, 2), (false, 2), (false, 1)],
    &[(true, 1), (false, 0)],
];

// @obl props=C01,C02,C03,C04,C06 tier=quick fn=abe_policy::AccessStructure::generate_complementary_rights shape="8 structures (also with one attribute disabled) (<= 3 dimensions x <= 3 attributes), all user policies of <= 3 terms without same-dimension clash"
#[test]
fn complementary_rights__equal_cover_relation() {
    let mut n = 0u64;
    for shape in SHAPES {
        let s = build(shape, 0b0101_0101);
        let pts = points(&s);
        for p in policies(&s) {
            if has_same_dimension_clash(&p) {
                continue; // see complementary_rights__same_dimension_conjunction
            }
            let got: BTreeSet<Right> = s.generate_complementary_rights(&p).unwrap().into_iter().collect();
            let want: BTreeSet<Right> = pts.iter().filter(|pt| sem(&s, &p, pt)).map(|pt| right_of(&s, pt)).collect();
            vchk!(want.is_subset(&got), "C01/C04: structure {shape:?}: user policy {p:?} lacks rights of points it covers (a key for it misses access; a rekey of it leaves those rights on their old secret): {:?}", want.difference(&got).collect::<Vec<_>>());
            vchk!(got.is_subset(&want), "C02: structure {shape:?}: user policy {p:?} receives rights of points it does not cover: {:?}", got.difference(&want).collect::<Vec<_>>());
            n += 1;
            // disabling an attribute changes what can be encrypted, not what a key covers (C03 / C06: keys keep opening)
            if let Some(first) = all_attrs(&s).into_iter().next() {
                let mut s2 = s.clone();
                s2.disable_attribute(&first).unwrap();
                let got2: BTreeSet<Right> = s2.generate_complementary_rights(&p).unwrap().into_iter().collect();
                vchk!(got2 == want, "C01/C03/C06: structure {shape:?} with {first:?} disabled: user policy {p:?} receives {} rights instead of the {} it covers (a disabled attribute is still decryptable)", got2.len(), want.len());
            }
        }
    }
    println!("VERIF-COUNT complementary_rights__equal_cover_relation {n}");
    done();
}

// @obl props=C02 tier=quick fn=abe_policy::AccessStructure::generate_complementary_rights shape="user conjunctions naming two attributes of one dimension (unordered and ordered)"
#[test]
fn complementary_rights__same_dimension_conjunction() {
    let s = build(&[(false, 3), (true, 3)], 0);
    let pts = points(&s);
    let mut n = 0u64;
    for (a, b) in [(("D0", "a0"), ("D0", "a1")), (("D0", "a2"), ("D0", "a0")), (("D1", "a0"), ("D1", "a2")), (("D1", "a2"), ("D1", "a1"))] {
        let p = AccessPolicy::Term(QualifiedAttribute::new(a.0, a.1)) & AccessPolicy::Term(QualifiedAttribute::new(b.0, b.1));
        match s.generate_complementary_rights(&p) {
            Err(_) => {} // refusing such a policy is acceptable
            Ok(got) => {
                let got: BTreeSet<Right> = got.into_iter().collect();
                let want: BTreeSet<Right> = pts.iter().filter(|pt| sem(&s, &p, pt)).map(|pt| right_of(&s, pt)).collect();
                vchk!(got.is_subset(&want), "C02: user policy {p:?} (two attributes of one dimension) receives rights of points it does not cover: {:?}", got.difference(&want).collect::<Vec<_>>());
            }
        }
        n += 1;
    }
    println!("VERIF-COUNT complementary_rights__same_dimension_conjunction {n}");
    done();
}

// @obl props=C01,C09 tier=quick fn=abe_policy::AccessStructure::generate_associated_rights shape="8 structures, all encryption policies of <= 3 terms; unknown attribute / dimension"
#[test]
fn associated_rights__one_right_per_conjunction() {
    let mut n = 0u64;
    for shape in SHAPES {
        let s = build(shape, 0);
        for p in policies(&s) {
            let got: BTreeSet<Right> = s.generate_associated_rights(&p).unwrap().into_iter().collect();
            let want: BTreeSet<Right> = p.to_dnf().iter().map(|c| right_of(&s, c)).collect();
            vchk!(got == want, "C01: structure {shape:?}: encryption policy {p:?} targets {got:?}, expected one right per DNF conjunction {want:?}");
            n += 1;
        }
        let unknown_attr = AccessPolicy::Term(QualifiedAttribute::new("D0", "zz"));
        let unknown_dim = AccessPolicy::Term(QualifiedAttribute::new("ZZ", "a0"));
        vchk!(matches!(s.generate_associated_rights(&unknown_attr), Err(Error::AttributeNotFound(_))), "C09: an unknown attribute in an encryption policy is reported (AttributeNotFound)");
        vchk!(matches!(s.generate_associated_rights(&unknown_dim), Err(Error::DimensionNotFound(_))), "C09: an unknown dimension in an encryption policy is reported (DimensionNotFound)");
        vchk!(s.generate_complementary_rights(&unknown_attr).is_err() && s.generate_complementary_rights(&unknown_dim).is_err(), "C09: unknown names in a user policy are reported");
        if let Some(known) = all_attrs(&s).into_iter().next() {
            for (what, bad) in [("attribute", &unknown_attr), ("dimension", &unknown_dim)] {
                for p in [AccessPolicy::Conjunction(Box::new(AccessPolicy::Term(known.clone())), Box::new(bad.clone())), AccessPolicy::Disjunction(Box::new(bad.clone()), Box::new(AccessPolicy::Term(known.clone())))] {
                    vchk!(s.generate_complementary_rights(&p).is_err(), "C09: an unknown {what} inside the user policy {p:?} is reported, not silently dropped");
                    vchk!(s.generate_associated_rights(&p).is_err(), "C09: an unknown {what} inside the encryption policy {p:?} is reported, not silently dropped");
                }
            }
        }
    }
    println!("VERIF-COUNT associated_rights__one_right_per_conjunction {n}");
    done();
}

// @obl props=C01,C03,C06,C11 tier=quick fn=abe_policy::AccessStructure::omega shape="8 structures x all hint assignments (<= 7 attributes) x one disabled attribute at every position"
#[test]
fn omega__rights_hints_and_status() {
    let mut n = 0u64;
    for shape in SHAPES {
        let nattr: usize = shape.iter().map(|x| x.1).sum();
        for hints in 0..(1u32 << nattr) {
            for disabled in 0..=nattr {
                let mut s = build(shape, hints);
                let attrs = all_attrs(&s);
                if disabled < nattr {
                    s.disable_attribute(&attrs[disabled]).unwrap();
                }
                let om = s.omega().unwrap();
                let pts = points(&s);
                vchk!(om.len() == pts.len(), "C03: omega holds one right per point (got {}, expected {})", om.len(), pts.len());
                for pt in &pts {
                    let r = right_of(&s, pt);
                    let (h, st) = om.get(&r).unwrap_or_else(|| panic!("C01: omega lacks the right of point {pt:?}"));
                    // expected values from the declaration (hint bits in creation order, the one disabled attribute), not from the accessors under test
                    let declared_hyb = |qa: &QualifiedAttribute| {
                        let d: usize = qa.dimension[1..].parse().unwrap();
                        let a: usize = qa.name[1..].parse().unwrap();
                        let k: usize = shape[..d].iter().map(|x| x.1).sum::<usize>() + a;
                        (hints >> k) & 1 == 1
                    };
                    let want_h = pt.iter().any(|qa| declared_hyb(qa));
                    let want_ro = disabled < nattr && pt.contains(&attrs[disabled]);
                    for qa in pt {
                        vchk!((s.get_attribute(qa).unwrap().get_encryption_hint() == EncryptionHint::Hybridized) == declared_hyb(qa), "C11: attribute {qa:?} no longer reports the hint it was declared with (disabled: {})", disabled < nattr && *qa == attrs[disabled]);
                    }
                    vchk!((*h == EncryptionHint::Hybridized) == want_h, "C11: the right of {pt:?} is hybridized iff one of its attributes is (hints {hints:b})");
                    vchk!((*st == AttributeStatus::DecryptOnly) == want_ro, "C06: the right of {pt:?} is decrypt-only iff one of its attributes is disabled");
                }
                n += 1;
            }
        }
    }
    println!("VERIF-COUNT omega__rights_hints_and_status {n}");
    done();
}

// @obl props=C03 tier=quick fn=abe_policy::AccessStructure::add_attribute shape="8 structures: delete any one attribute, add a new one in any dimension; the new id differs from every live id"
#[test]
fn add_attribute__id_unique_among_live_attributes() {
    let mut n = 0u64;
    for shape in SHAPES {
        let base = build(shape, 0);
        let attrs = all_attrs(&base);
        for del in 0..attrs.len() {
            for (d, _) in shape.iter().enumerate() {
                let mut s = base.clone();
                s.del_attribute(&attrs[del]).unwrap();
                let before: HashMap<QualifiedAttribute, Attribute> = s.attributes().map(|qa| (qa.clone(), s.get_attribute(&qa).unwrap().clone())).collect();
                let newa = QualifiedAttribute::new(&format!("D{d}"), "new");
                s.add_attribute(newa.clone(), EncryptionHint::Classic, None).unwrap();
                let new_id = s.get_attribute(&newa).unwrap().get_id();
                for (qa, a) in &before {
                    vchk!(s.get_attribute(qa).unwrap() == a, "C03: adding an attribute changes no other attribute ({qa:?})");
                    vchk!(a.get_id() != new_id, "C03: the new attribute {newa:?} received the id {new_id} of the live attribute {qa:?} (after deleting {:?})", attrs[del]);
                }
                let ids: HashSet<usize> = s.attributes().map(|qa| s.get_attribute(&qa).unwrap().get_id()).collect();
                vchk!(ids.len() == s.attributes().count(), "C03: ids of live attributes are pairwise distinct");
                n += 1;
            }
        }
    }
    println!("VERIF-COUNT add_attribute__id_unique_among_live_attributes {n}");
    done();
}

// @obl props=C03 tier=quick fn=abe_policy::AccessStructure::add_attribute shape="delete the attribute with the highest id, add a new one: the id of the deleted attribute must not be reused"
#[test]
fn add_attribute__id_never_reused_after_deletion() {
    let mut n = 0u64;
    for shape in SHAPES {
        let base = build(shape, 0);
        let attrs = all_attrs(&base);
        if attrs.is_empty() { continue; }
        let (top, top_id) = attrs.iter().map(|qa| (qa.clone(), base.get_attribute(qa).unwrap().get_id())).max_by_key(|x| x.1).unwrap();
        let mut s = base.clone();
        s.del_attribute(&top).unwrap();
        let newa = QualifiedAttribute::new("D0", "new");
        s.add_attribute(newa.clone(), EncryptionHint::Classic, None).unwrap();
        let new_id = s.get_attribute(&newa).unwrap().get_id();
        vchk!(new_id != top_id, "C03: the new attribute {newa:?} reuses id {top_id} of the deleted attribute {top:?}: keys issued for {top:?} gain access to {newa:?} once refreshed");
        n += 1;
    }
    println!("VERIF-COUNT add_attribute__id_never_reused_after_deletion {n}");
    done();
}

// @obl props=C03,C06,C09,C10 tier=quick fn=abe_policy::AccessStructure::del_attribute shape="structure edits confined to the named dimension; documented errors"
#[test]
fn structure_edits__frame_and_errors() {
    let mut n = 0u64;
    for shape in SHAPES.iter().filter(|s| s.len() >= 2 && s[0].1 >= 2) {
        let base = build(shape, 0b1010);
        let other: Vec<(QualifiedAttribute, Attribute)> = base.attributes().filter(|qa| qa.dimension != "D0").map(|qa| (qa.clone(), base.get_attribute(&qa).unwrap().clone())).collect();
        let check_frame = |s: &AccessStructure, what: &str| {
            for (qa, a) in &other {
                vchk!(s.get_attribute(qa).unwrap() == a, "C03: {what} in D0 changed {qa:?} of another dimension");
            }
        };
        let a0 = QualifiedAttribute::new("D0", "a0");
        let a1 = QualifiedAttribute::new("D0", "a1");
        let id1 = base.get_attribute(&a1).unwrap().clone();
        let mut s = base.clone();
        s.rename_attribute(&a0, "renamed".to_string()).unwrap();
        vchk!(s.get_attribute(&QualifiedAttribute::new("D0", "renamed")).unwrap() == base.get_attribute(&a0).unwrap(), "C03: a renamed attribute keeps id, hint and status");
        vchk!(s.get_attribute(&a0).is_err() && s.get_attribute(&a1).unwrap() == &id1, "C03: renaming touches only the named attribute");
        check_frame(&s, "rename");
        let mut s = base.clone();
        s.disable_attribute(&a0).unwrap();
        let mut want = base.get_attribute(&a0).unwrap().clone();
        want.write_status = AttributeStatus::DecryptOnly;
        vchk!(s.get_attribute(&a0).unwrap() == &want && s.get_attribute(&a1).unwrap() == &id1, "C06: disabling only flips the status of the named attribute");
        check_frame(&s, "disable");
        let mut s = base.clone();
        s.del_attribute(&a0).unwrap();
        vchk!(s.get_attribute(&a0).is_err() && s.get_attribute(&a1).unwrap() == &id1, "C03: deleting removes only the named attribute");
        check_frame(&s, "delete");
        let mut s = base.clone();
        s.del_dimension("D0").unwrap();
        vchk!(s.dimensions().all(|d| d != "D0"), "C03: the dimension is removed");
        check_frame(&s, "delete dimension");
        // documented errors
        let mut s = base.clone();
        let snapshot = s.clone();
        vchk!(matches!(s.add_anarchy("D0".into()), Err(Error::ExistingDimension(_))) && matches!(s.add_hierarchy("D1".into()), Err(Error::ExistingDimension(_))), "C09: duplicate dimension");
        vchk!(matches!(s.del_dimension("ZZ"), Err(Error::DimensionNotFound(_))), "C09: unknown dimension");
        vchk!(matches!(s.add_attribute(QualifiedAttribute::new("ZZ", "x"), EncryptionHint::Classic, None), Err(Error::DimensionNotFound(_))), "C09: unknown dimension on add");
        vchk!(matches!(s.add_attribute(a0.clone(), EncryptionHint::Classic, None), Err(Error::OperationNotPermitted(_))), "C09: duplicate attribute");
        vchk!(matches!(s.del_attribute(&QualifiedAttribute::new("D0", "zz")), Err(Error::AttributeNotFound(_))) && matches!(s.del_attribute(&QualifiedAttribute::new("ZZ", "a0")), Err(Error::DimensionNotFound(_))), "C09: unknown names on delete");
        vchk!(s.rename_attribute(&a0, "a1".into()).is_err() && s.rename_attribute(&QualifiedAttribute::new("D0", "zz"), "q".into()).is_err() && matches!(s.rename_attribute(&QualifiedAttribute::new("ZZ", "a0"), "q".into()), Err(Error::DimensionNotFound(_))), "C09: refused renames");
        vchk!(matches!(s.disable_attribute(&QualifiedAttribute::new("D0", "zz")), Err(Error::AttributeNotFound(_))) && matches!(s.disable_attribute(&QualifiedAttribute::new("ZZ", "a0")), Err(Error::DimensionNotFound(_))), "C09: unknown names on disable");
        if shape[0].0 {
            vchk!(matches!(s.add_attribute(QualifiedAttribute::new("D0", "x"), EncryptionHint::Classic, Some("zz")), Err(Error::AttributeNotFound(_))), "C09: unknown `after` attribute in a hierarchy");
        }
        vchk!(s == snapshot, "C10: refused edits leave the structure untouched");
        n += 1;
    }
    println!("VERIF-COUNT structure_edits__frame_and_errors {n}");
    done();
}

// @obl props=C01,C02,C03,C09,C13 tier=quick fn=abe_policy::Dimension::restrict shape="hierarchies of 1..4 attributes built in every insertion order (after = any existing / None), then every single deletion and every duplicate add (any insertion point); order, name lookup and restriction at every rank"
#[test]
fn hierarchy__order_and_restriction() {
    // build hierarchies by inserting "n{k}" after a chosen existing attribute, track the expected order in a Vec
    let mut n = 0u64;
    let mut stack: Vec<(AccessStructure, Vec<String>)> = vec![];
    let mut s0 = AccessStructure::new();
    s0.add_hierarchy("H".into()).unwrap();
    stack.push((s0, vec![]));
    while let Some((s, order)) = stack.pop() {
        // check order and restriction
        let names: Vec<String> = s.dimensions["H"].get_attributes_name().cloned().collect();
        vchk!(names == order, "C03: hierarchy order {names:?}, expected {order:?}");
        for (rank, name) in order.iter().enumerate() {
            match s.dimensions["H"].restrict(name.clone()).unwrap() {
                Dimension::Hierarchy(d) => {
                    let got: Vec<String> = d.keys().cloned().collect();
                    vchk!(got == order[..=rank].to_vec(), "C01/C02/C03: restriction of {order:?} (built by successive insertions) to {name} is {got:?}, expected exactly the attributes at or below it");
                    for k in d.keys() {
                        vchk!(d.get(k) == s.dimensions["H"].get_attribute(k), "C01/C03: restriction keeps ids, hints and status");
                    }
                }
                _ => panic!("C01: restriction of a hierarchy is a hierarchy"),
            }
            n += 1;
        }
        // ids are pairwise distinct whatever the order of insertions (rank order and creation order differ)
        {
            let ids: Vec<usize> = order.iter().map(|k| s.dimensions["H"].get_attribute(k).unwrap().get_id()).collect();
            let distinct: BTreeSet<usize> = ids.iter().cloned().collect();
            vchk!(distinct.len() == ids.len(), "C02/C03: two live attributes of hierarchy {order:?} share an id ({ids:?}): they map to the same rights and open each other's encapsulations");
        }
        // serialization keeps the hierarchy (order included)
        {
            use cosmian_crypto_core::bytes_ser_de::Serializable;
            let bytes = s.serialize().unwrap();
            vchk!(bytes.len() == s.length(), "C13: access structure: announced length");
            let back = AccessStructure::deserialize(&bytes).unwrap();
            vchk!(back == s, "C02/C03/C13: the access structure with hierarchy {order:?} does not survive a serialization round-trip (order or parameters changed)");
        }
        // deletions: the remaining attributes keep order, parameters and restrictions; lookups by name stay right
        for del in 0..order.len() {
            let mut s2 = s.clone();
            s2.del_attribute(&QualifiedAttribute::new("H", &order[del])).unwrap();
            let mut o2 = order.clone();
            o2.remove(del);
            let names2: Vec<String> = s2.dimensions["H"].get_attributes_name().cloned().collect();
            vchk!(names2 == o2, "C03: after deleting {} from {order:?} the order is {names2:?}", order[del]);
            for (rank, name) in o2.iter().enumerate() {
                let want = s.dimensions["H"].get_attribute(name).unwrap();
                vchk!(s2.dimensions["H"].get_attribute(name) == Some(want), "C02/C03/C09: after deleting {} from {order:?}, the name {name} resolves to another attribute (or to none: a spurious 'attribute not found')", order[del]);
                match s2.dimensions["H"].restrict(name.clone()).unwrap() {
                    Dimension::Hierarchy(d) => {
                        let got: Vec<(String, Attribute)> = d.iter().map(|(k, v)| (k.clone(), v.clone())).collect();
                        let exp: Vec<(String, Attribute)> = o2[..=rank].iter().map(|k| (k.clone(), s.dimensions["H"].get_attribute(k).unwrap().clone())).collect();
                        vchk!(got == exp, "C01/C02/C03: after deleting {} from {order:?}, the restriction to {name} is {got:?}, expected {exp:?}", order[del]);
                    }
                    _ => panic!("C01: restriction of a hierarchy is a hierarchy"),
                }
                n += 1;
            }
        }
        // renaming keeps the rank (and id, hint, status) of the attribute, whatever its position
        for (rank, name) in order.iter().enumerate() {
            let mut s2 = s.clone();
            s2.rename_attribute(&QualifiedAttribute::new("H", name), "renamed".to_string()).unwrap();
            let mut o2 = order.clone();
            o2[rank] = "renamed".to_string();
            let names2: Vec<String> = s2.dimensions["H"].get_attributes_name().cloned().collect();
            vchk!(names2 == o2, "C01/C02/C03: renaming {name} in hierarchy {order:?} gives the order {names2:?}: a renamed attribute must keep its rank (it neither gains the access of higher attributes nor loses that of lower ones)");
            vchk!(s2.dimensions["H"].get_attribute(&"renamed".to_string()) == s.dimensions["H"].get_attribute(name), "C03: a renamed attribute keeps id, hint and status");
            n += 1;
        }
        // duplicate names are refused whatever the insertion point, and the structure is left as it was
        for dup in order.iter() {
            for after in std::iter::once(None).chain(order.iter().map(Some)) {
                let mut s2 = s.clone();
                let r = s2.add_attribute(QualifiedAttribute::new("H", dup), EncryptionHint::Hybridized, after.map(|x| x.as_str()));
                vchk!(matches!(r, Err(Error::OperationNotPermitted(_))), "C03/C09: adding the existing name {dup} to hierarchy {order:?} after {after:?} returned {r:?}, expected the duplicate-name error");
                vchk!(s2 == s, "C03/C09: a refused duplicate add of {dup} after {after:?} changed hierarchy {order:?}");
                n += 1;
            }
        }
        if order.len() < 4 {
            let k = order.len();
            for after in std::iter::once(None).chain(order.iter().map(Some)) {
                let mut s2 = s.clone();
                let newn = format!("n{k}");
                s2.add_attribute(QualifiedAttribute::new("H", &newn), EncryptionHint::Classic, after.map(|x| x.as_str())).unwrap();
                let mut o2 = order.clone();
                match after {
                    None => o2.insert(0, newn),
                    Some(a) => { let p = o2.iter().position(|x| x == a).unwrap(); o2.insert(p + 1, newn) }
                }
                stack.push((s2, o2));
            }
        }
    }
    println!("VERIF-COUNT hierarchy__order_and_restriction {n}");
    done();
}

impl AccessStructure {
    /// test-only accessor used by the serialization checks in core
    pub(crate) fn dimensions_for_verif(&self) -> impl Iterator<Item = (&String, &Dimension)> {
        self.dimensions.iter()
    }
}
