//! Native bounded contract checks for the policy parser (child module of `access_policy`).
use super::*;
use crate::verif_native::{done, vchk};
use std::collections::BTreeSet;

/// reference evaluation of the documented grammar: parentheses first, AND (explicit `&&` or juxtaposition) before OR
#[derive(Clone, Debug)]
enum Ast {
    Star,
    Var(String),
    And(Box<Ast>, Box<Ast>),
    Or(Box<Ast>, Box<Ast>),
}
fn eval(a: &Ast, truth: &BTreeSet<String>) -> bool {
    match a {
        Ast::Star => true,
        Ast::Var(v) => truth.contains(v),
        Ast::And(x, y) => eval(x, truth) && eval(y, truth),
        Ast::Or(x, y) => eval(x, truth) || eval(y, truth),
    }
}
/// prints with OR at the lowest precedence, parenthesising OR inside AND; `style` selects spacing / redundant parentheses
fn show(a: &Ast, style: usize, top: bool) -> String {
    let sp = if style & 1 == 1 { "  " } else { " " };
    let s = match a {
        // a bare '*' is only recognised as the last token of a (sub)expression: elsewhere it is written "(*)"
        Ast::Star => if top { "*".to_string() } else { "(*)".to_string() },
        Ast::Var(v) => if style & 2 == 2 { format!("({v})") } else { v.clone() },
        Ast::And(x, y) => {
            // style bit 16: every compound operand keeps its own parentheses ("A && (A && B)" is not flattened)
            let f = |z: &Ast| match z { Ast::Or(..) => format!("({})", show(z, style, false)), Ast::And(..) if style & 16 == 16 => format!("({})", show(z, style, false)), _ => show(z, style, false) };
            if style & 4 == 4 { format!("{}{sp}&&{sp}{}", f(x), f(y)) } else { format!("{}&&{}", f(x), f(y)) }
        }
        Ast::Or(x, y) => {
            let g = |z: &Ast| match z { Ast::Or(..) | Ast::And(..) if style & 16 == 16 => format!("({})", show(z, style, false)), _ => show(z, style, false) };
            format!("{}{sp}||{sp}{}", g(x), g(y))
        }
    };
    if top && style & 8 == 8 { format!(" ( {s} ) ") } else { s }
}
fn eval_policy(p: &AccessPolicy, truth: &BTreeSet<String>) -> bool {
    match p {
        AccessPolicy::Broadcast => true,
        AccessPolicy::Term(t) => truth.contains(&format!("{}::{}", t.dimension, t.name)),
        AccessPolicy::Conjunction(a, b) => eval_policy(a, truth) && eval_policy(b, truth),
        AccessPolicy::Disjunction(a, b) => eval_policy(a, truth) || eval_policy(b, truth),
    }
}
fn eval_dnf(d: &[Vec<QualifiedAttribute>], truth: &BTreeSet<String>) -> bool {
    d.iter().any(|c| c.iter().all(|t| truth.contains(&format!("{}::{}", t.dimension, t.name))))
}
fn asts(depth: usize, vars: &[&str]) -> Vec<Ast> {
    let mut leaves: Vec<Ast> = vars.iter().map(|v| Ast::Var(v.to_string())).collect();
    leaves.push(Ast::Star);
    if depth == 0 {
        return leaves;
    }
    let sub = asts(depth - 1, vars);
    let mut out = leaves;
    for x in &sub {
        for y in &sub {
            out.push(Ast::And(Box::new(x.clone()), Box::new(y.clone())));
            out.push(Ast::Or(Box::new(x.clone()), Box::new(y.clone())));
        }
    }
    out
}

// @obl props=C15 tier=quick fn=abe_policy::AccessPolicy::parse shape="all strings of length <= 5 over the 10-symbol alphabet ( ) & | : A b * space é (111,110 strings): no panic; attribute names of accepted strings are substrings of the input"
#[test]
fn parse__total_on_all_short_strings() {
    let alphabet = ["(", ")", "&", "|", ":", "A", "b", "*", " ", "é"];
    let max_len = if std::env::var("VERIF_TIER").map_or(false, |t| t == "thorough") { 6 } else { 5 };
    let mut n = 0u64;
    let mut cur: Vec<String> = vec![String::new()];
    for _len in 0..=max_len {
        for s in &cur {
            let r = std::panic::catch_unwind(|| AccessPolicy::parse(s));
            match r {
                Err(_) => panic!("C15: parsing {s:?} panics"),
                Ok(Ok(p)) => {
                    for c in p.to_dnf() {
                        for t in c {
                            // (the parser is lenient on strings outside the documented grammar: "A:: &&" is accepted with an empty name and the
                            // dangling operator ignored; C15 only asks for totality there, so emptiness is not demanded)
                            vchk!(s.contains(&t.dimension) && s.contains(&t.name), "C15: parsing {s:?} yields the attribute {t:?} which is not part of the input");
                            vchk!(t.dimension.trim() == t.dimension && t.name.trim() == t.name, "C15: attribute names are trimmed");
                        }
                    }
                }
                Ok(Err(_)) => {}
            }
            n += 1;
        }
        if _len < max_len {
            let mut next = Vec::with_capacity(cur.len() * alphabet.len());
            for s in &cur {
                for a in alphabet {
                    next.push(format!("{s}{a}"));
                }
            }
            cur = next;
        }
    }
    println!("VERIF-COUNT parse__total_on_all_short_strings {n}");
    done();
}

// @obl props=C15 tier=quick fn=abe_policy::AccessPolicy::parse shape="all formulas of depth <= 2 over 3 variables (one with multi-byte name) and '*', printed in 16 styles (spacing, redundant parentheses): parse, to_dnf and the reference evaluation agree under all 8 truth assignments; names preserved"
#[test]
fn parse__faithful_to_reference_semantics() {
    let vars = ["D1::A", "Dé::bé", "D3::C c"];
    let all = asts(2, &vars);
    let mut n = 0u64;
    for (i, a) in all.iter().enumerate() {
        // every formula in 2 styles (rotating), a subset in all 16
        let styles: Vec<usize> = if i % 7 == 0 { (0..32).collect() } else { vec![i % 16, (i * 5 + 3) % 16, 16 + (i * 3 + 1) % 16] };
        for st in styles {
            let text = show(a, st, true);
            let p = match std::panic::catch_unwind(|| AccessPolicy::parse(&text)) {
                Err(_) => panic!("C15: parsing {text:?} panics"),
                Ok(Err(e)) => { vchk!(false, "C15: the well-formed policy {text:?} is rejected: {e}"); continue }
                Ok(Ok(p)) => p,
            };
            let dnf = p.to_dnf();
            for mask in 0..8u32 {
                let truth: BTreeSet<String> = vars.iter().enumerate().filter(|(k, _)| mask >> k & 1 == 1).map(|(_, v)| {
                    let (d, nme) = v.split_once("::").unwrap();
                    format!("{}::{}", d.trim(), nme.trim())
                }).collect();
                let want = eval(a, &truth);
                vchk!(eval_policy(&p, &truth) == want, "C15: {text:?} parsed as {p:?} evaluates to {} under {truth:?}, the expression (parentheses first, AND before OR) evaluates to {want}", !want);
                vchk!(eval_dnf(&dnf, &truth) == want, "C15: the DNF {dnf:?} of {text:?} evaluates to {} under {truth:?}, expected {want}", !want);
                n += 1;
            }
            for c in &dnf {
                for t in c {
                    vchk!(vars.iter().any(|v| { let (d, nme) = v.split_once("::").unwrap(); d == t.dimension && nme == t.name }), "C15: {text:?}: attribute {t:?} is not one of the names of the input");
                }
            }
        }
    }
    // a bare trailing '*': "X && *" is X, "X || *" is everything
    for a in asts(1, &vars) {
        for (text, want_ast) in [
            (format!("({}) && *", show(&a, 0, false)), Ast::And(Box::new(a.clone()), Box::new(Ast::Star))),
            (format!("{} || *", show(&a, 0, false)), Ast::Or(Box::new(a.clone()), Box::new(Ast::Star))),
            (format!("(*) && ({})", show(&a, 4, false)), Ast::And(Box::new(Ast::Star), Box::new(a.clone()))),
        ] {
            let p = match std::panic::catch_unwind(|| AccessPolicy::parse(&text)) {
                Ok(Ok(p)) => p,
                _ => { vchk!(false, "C15: the well-formed policy {text:?} is rejected or panics"); continue }
            };
            for mask in 0..8u32 {
                let truth: BTreeSet<String> = vars.iter().enumerate().filter(|(k, _)| mask >> k & 1 == 1).map(|(_, v)| { let (d, nme) = v.split_once("::").unwrap(); format!("{}::{}", d.trim(), nme.trim()) }).collect();
                let want = eval(&want_ast, &truth);
                vchk!(eval_policy(&p, &truth) == want && eval_dnf(&p.to_dnf(), &truth) == want, "C15: {text:?} parsed as {p:?} (DNF {:?}) does not evaluate to {want} under {truth:?} ('*' is true for everyone)", p.to_dnf());
                n += 1;
            }
        }
    }
    println!("VERIF-COUNT parse__faithful_to_reference_semantics {n}");
    done();
}

// @obl props=C15,C09 tier=quick fn=abe_policy::AccessPolicy::parse shape="documented error cases and precedence examples"
#[test]
fn parse__documented_cases() {
    // strings the documentation or the test-suite declare invalid: an error, never a panic, never a policy
    for bad in ["DPT::MKG (&& CTR::FR || CTR::DE)", "DPT::MKG DPT::FIN", "D1::A (&& D2::A || D2::B)", "|| D2::B", "D1", "(D1::A", "D1::A)", "D1::A & D2::B", "D1::A | D2::B", "D::a::b"] {
        let r = std::panic::catch_unwind(|| AccessPolicy::parse(bad));
        vchk!(matches!(r, Ok(Err(_))), "C15/C09: {bad:?} must be rejected with an error (got {})", if r.is_err() { "a panic" } else { "a policy" });
    }
    // malformed strings: a value or an error, never a panic
    for odd in ["", "   ", "&& D2::B", "D1::A &", "D1::A |", "D1::A && ", "D1::A || ", "::", "D::", "::a", "(", ")", "()", "é", "(é)", "D1::A |é", "D1::A &é", "((", "))", "(é::é)é", "*é", "é*", "* && D1::A"] {
        vchk!(std::panic::catch_unwind(|| AccessPolicy::parse(odd)).is_ok(), "C15: parsing {odd:?} panics");
    }
    let t = |d: &str, n: &str| AccessPolicy::Term(QualifiedAttribute::new(d, n));
    vchk!(AccessPolicy::parse("D1::A && D2::A || D2::B").unwrap() == ((t("D1", "A") & t("D2", "A")) | t("D2", "B")), "C15: AND binds tighter than OR");
    vchk!(AccessPolicy::parse("D1::A || D2::A && D2::B").unwrap() == (t("D1", "A") | (t("D2", "A") & t("D2", "B"))), "C15: AND binds tighter than OR");
    vchk!(AccessPolicy::parse("D1::A && (D2::A || D2::B)").unwrap() == (t("D1", "A") & (t("D2", "A") | t("D2", "B"))), "C15: parentheses first");
    vchk!(AccessPolicy::parse("(Dé::a é) && D::b").unwrap() == (t("Dé", "a é") & t("D", "b")), "C15: multi-byte names inside parentheses are preserved");
    vchk!(AccessPolicy::parse(" * ").unwrap() == AccessPolicy::Broadcast, "C15: '*' is the broadcast policy");
    vchk!(AccessPolicy::parse("D1::A && *").unwrap() == t("D1", "A"), "C15: a trailing '*' is neutral in a conjunction");
    println!("VERIF-COUNT parse__documented_cases 38");
    done();
}
