//! Native confirmation of suspected defects (scratch only).
use super::*;
use crate::{
    abe_policy::{AccessPolicy, EncryptionHint, QualifiedAttribute},
    api::Covercrypt,
    test_utils::cc_keygen,
    traits::KemAc,
};
use cosmian_crypto_core::bytes_ser_de::{Serializable, Serializer};

fn ap(s: &str) -> AccessPolicy {
    AccessPolicy::parse(s).unwrap()
}

#[test]
fn c04_unequal_chains_keep_old() {
    // rekey only one of the user's rights; refresh keep=true; old encapsulation must still open
    let cc = Covercrypt::default();
    let (mut msk, mpk) = cc_keygen(&cc, false).unwrap();
    let mut usk = cc.generate_user_secret_key(&mut msk, &ap("SEC::TOP && DPT::FIN")).unwrap();
    let mut opened = 0;
    let mut total = 0;
    // encapsulate for every right the user holds, before the rekey
    let encs: Vec<_> = ["SEC::LOW && DPT::FIN", "DPT::FIN", "SEC::LOW", "*"]
        .iter()
        .map(|p| (p, cc.encaps(&mpk, &ap(p)).unwrap()))
        .collect();
    for (_, (ss, enc)) in &encs {
        assert_eq!(cc.decaps(&usk, enc).unwrap().as_ref(), Some(ss));
    }
    let _mpk2 = cc.rekey(&mut msk, &ap("SEC::LOW && DPT::FIN")).unwrap();
    cc.refresh_usk(&mut msk, &mut usk, true).unwrap();
    for (p, (ss, enc)) in &encs {
        total += 1;
        let r = cc.decaps(&usk, enc).unwrap();
        if r.as_ref() == Some(ss) {
            opened += 1;
        } else {
            println!("C04: after keep-old refresh the key no longer opens the old encapsulation for {p}");
        }
    }
    assert_eq!(opened, total);
}

#[test]
fn c05_stale_first_secret() {
    let cc = Covercrypt::default();
    let (mut msk, mpk) = cc_keygen(&cc, false).unwrap();
    let mut usk = cc.generate_user_secret_key(&mut msk, &ap("DPT::FIN && SEC::LOW")).unwrap();
    let (ss_old, enc_old) = cc.encaps(&mpk, &ap("DPT::FIN && SEC::LOW")).unwrap();
    // rekey twice then prune: the user's secret is gone from the master key
    cc.rekey(&mut msk, &ap("DPT::FIN && SEC::LOW")).unwrap();
    cc.rekey(&mut msk, &ap("DPT::FIN && SEC::LOW")).unwrap();
    cc.prune_master_secret_key(&mut msk, &ap("DPT::FIN && SEC::LOW")).unwrap();
    cc.refresh_usk(&mut msk, &mut usk, true).unwrap();
    let r = cc.decaps(&usk, &enc_old).unwrap();
    // every secret of the refreshed key must be in the master key
    for (right, chain) in usk.secrets.iter() {
        let m = msk.secrets.get(right).unwrap();
        for sk in chain {
            assert!(m.iter().any(|(_, k)| k == sk), "C05: refreshed key holds a pruned secret");
        }
    }
    assert!(r.is_none(), "C05: pruned secret still usable {:?}", r == Some(ss_old));
}

#[test]
fn c06_rekey_reactivates() {
    let cc = Covercrypt::default();
    let (mut msk, _mpk) = cc_keygen(&cc, false).unwrap();
    msk.access_structure.disable_attribute(&QualifiedAttribute::new("DPT", "FIN")).unwrap();
    let mpk = cc.update_msk(&mut msk).unwrap();
    assert!(cc.encaps(&mpk, &ap("DPT::FIN")).is_err());
    let mpk = cc.rekey(&mut msk, &ap("DPT::FIN")).unwrap();
    assert!(cc.encaps(&mpk, &ap("DPT::FIN")).is_err(), "C06: rekey re-enabled a disabled attribute");
}

#[test]
fn c13_tsk_write_return() {
    let cc = Covercrypt::default();
    let (mut msk, _mpk) = cc_keygen(&cc, false).unwrap();
    let _ = cc.generate_user_secret_key(&mut msk, &ap("DPT::FIN")).unwrap();
    let mut ser = Serializer::new();
    let n = msk.tsk.write(&mut ser).unwrap();
    assert_eq!(n, msk.tsk.length(), "C13: TracingSecretKey::write returns {n}, length() = {}", msk.tsk.length());
}

#[test]
fn c13_msk_write_return() {
    let cc = Covercrypt::default();
    let (msk, _mpk) = cc_keygen(&cc, false).unwrap();
    let mut ser = Serializer::new();
    let n = msk.write(&mut ser).unwrap();
    assert_eq!(n, msk.length());
}

#[test]
fn c09_refresh_nokeep_after_delete() {
    let cc = Covercrypt::default();
    let (mut msk, _mpk) = cc_keygen(&cc, false).unwrap();
    let mut usk = cc.generate_user_secret_key(&mut msk, &ap("DPT::FIN")).unwrap();
    msk.access_structure.del_attribute(&QualifiedAttribute::new("DPT", "FIN")).unwrap();
    cc.update_msk(&mut msk).unwrap();
    let before = usk.serialize().unwrap().to_vec();
    let r = cc.refresh_usk(&mut msk, &mut usk, false);
    if r.is_err() {
        let after = usk.serialize().unwrap().to_vec();
        println!("C09: refresh(keep=false) failed: {:?}; C10: usk unchanged = {}", r, before == after);
    }
    assert!(r.is_ok());
}

#[test]
fn c10_rekey_partial() {
    // rekey with a set containing an unknown right: must leave msk untouched
    let cc = Covercrypt::default();
    let (mut msk, _mpk) = cc_keygen(&cc, false).unwrap();
    let before = msk.serialize().unwrap().to_vec();
    let mut changed = 0;
    for _ in 0..8 {
        let mut rights = msk.access_structure.ap_to_usk_rights(&ap("DPT::FIN && SEC::LOW")).unwrap();
        rights.insert(crate::abe_policy::Right(vec![0x7f, 0x7f]));
        let mut rng = cc.rng();
        let r = primitives::rekey(&mut *rng, &mut msk, rights);
        assert!(r.is_err());
        drop(rng);
        if msk.serialize().unwrap().to_vec() != before {
            changed += 1;
        }
    }
    assert_eq!(changed, 0, "C10: failed rekey modified the master key");
}

#[test]
fn c10_update_msk_empties() {
    use crate::abe_policy::{AttributeStatus, Right};
    let cc = Covercrypt::default();
    let (mut msk, _mpk) = cc_keygen(&cc, false).unwrap();
    let before = msk.serialize().unwrap().to_vec();
    let mut omega = msk.access_structure.omega().unwrap();
    omega.insert(Right(vec![0x7f, 0x7f]), (EncryptionHint::Classic, AttributeStatus::DecryptOnly));
    let mut rng = cc.rng();
    let r = primitives::update_msk(&mut *rng, &mut msk, omega);
    drop(rng);
    assert!(r.is_err());
    assert!(msk.serialize().unwrap().to_vec() == before, "C10: failed update_msk modified the master key (rights left: {})", msk.secrets.len());
}

#[test]
fn c10_refresh_unknown_id_empties() {
    let cc = Covercrypt::default();
    let (mut msk, _mpk) = cc_keygen(&cc, false).unwrap();
    let (mut msk2, _) = cc_keygen(&cc, false).unwrap();
    let mut usk = cc.generate_user_secret_key(&mut msk, &ap("DPT::FIN")).unwrap();
    // same signing key, unknown id: take a second master key sharing signing key
    msk2.signing_key = None;
    msk.signing_key = None;
    usk.signature = None;
    let before = usk.serialize().unwrap().to_vec();
    let r = cc.refresh_usk(&mut msk2, &mut usk, true);
    assert!(r.is_err());
    assert!(usk.serialize().unwrap().to_vec() == before, "C10: failed refresh modified the user key");
}

#[test]
fn c03_id_collision_live() {
    let cc = Covercrypt::default();
    let (mut msk, _mpk) = cc_keygen(&cc, false).unwrap();
    // ids: LOW=0 TOP=1 RD=2 HR=3 MKG=4 FIN=5 DEV=6; delete LOW(0): 6 live → next id = 6 = DEV
    msk.access_structure.del_attribute(&QualifiedAttribute::new("SEC", "LOW")).unwrap();
    msk.access_structure.add_attribute(QualifiedAttribute::new("DPT", "NEW"), EncryptionHint::Classic, None).unwrap();
    let mpk = cc.update_msk(&mut msk).unwrap();
    let usk_dev = cc.generate_user_secret_key(&mut msk, &ap("DPT::DEV")).unwrap();
    let (_ss, enc) = cc.encaps(&mpk, &ap("DPT::NEW")).unwrap();
    assert!(cc.decaps(&usk_dev, &enc).unwrap().is_none(), "C03: DPT::DEV key opens DPT::NEW (id collision)");
}

#[test]
fn c03_id_reuse_deleted() {
    let cc = Covercrypt::default();
    let (mut msk, _mpk) = cc_keygen(&cc, false).unwrap();
    let mut usk_dev = cc.generate_user_secret_key(&mut msk, &ap("DPT::DEV")).unwrap();
    // DEV has the highest id (6); delete it, add NEW (gets id 6 again)
    msk.access_structure.del_attribute(&QualifiedAttribute::new("DPT", "DEV")).unwrap();
    cc.update_msk(&mut msk).unwrap();
    msk.access_structure.add_attribute(QualifiedAttribute::new("DPT", "NEW"), EncryptionHint::Classic, None).unwrap();
    let mpk = cc.update_msk(&mut msk).unwrap();
    let (_ss, enc) = cc.encaps(&mpk, &ap("DPT::NEW")).unwrap();
    assert!(cc.decaps(&usk_dev, &enc).unwrap().is_none());
    cc.refresh_usk(&mut msk, &mut usk_dev, true).unwrap();
    assert!(cc.decaps(&usk_dev, &enc).unwrap().is_none(), "C03: stale DPT::DEV key refreshed after deletion opens DPT::NEW (id reuse)");
}

#[test]
fn c02_two_attrs_one_dim() {
    let cc = Covercrypt::default();
    let (mut msk, mpk) = cc_keygen(&cc, false).unwrap();
    let r = cc.generate_user_secret_key(&mut msk, &ap("DPT::FIN && DPT::HR"));
    match r {
        Err(e) => println!("keygen rejected: {e}"),
        Ok(usk) => {
            let (_, e1) = cc.encaps(&mpk, &ap("DPT::FIN")).unwrap();
            let (_, e2) = cc.encaps(&mpk, &ap("DPT::HR")).unwrap();
            let o1 = cc.decaps(&usk, &e1).unwrap().is_some();
            let o2 = cc.decaps(&usk, &e2).unwrap().is_some();
            println!("C02: key for 'DPT::FIN && DPT::HR' opens FIN={o1} HR={o2}");
            assert!(!(o1 ^ o2), "asymmetric");
        }
    }
}

#[test]
fn c14_iter_empty_usk_hangs() {
    use std::time::Instant;
    let rv: crate::data_struct::RevisionVec<u8, u8> = crate::data_struct::RevisionVec::new();
    let t = Instant::now();
    let mut n = 0u64;
    for _ in rv.revisions() {
        n += 1;
        if n > 1_000_000 {
            break;
        }
    }
    println!("{:?}", t.elapsed());
    assert!(n == 0, "C14: RevisionIterator over zero chains never ends");
}

#[test]
fn c14_tracing_level_underflow() {
    // XEnc with zero traps: tag(16) | n_traps=0 | flag 0 | len 0
    let mut bytes = vec![0u8; 16];
    bytes.extend_from_slice(&[0, 0, 0]);
    let enc = XEnc::deserialize(&bytes).unwrap();
    let r = std::panic::catch_unwind(|| enc.tracing_level());
    assert!(r.is_ok(), "C14: XEnc::tracing_level panics on zero traps");
}

#[test]
fn c14_with_capacity_overflow() {
    let mut bytes = vec![0u8; 16];
    // n_traps = 2^62
    let mut ser = Serializer::new();
    ser.write_leb128_u64(1u64 << 62).unwrap();
    bytes.extend_from_slice(&ser.finalize());
    let r = std::panic::catch_unwind(|| XEnc::deserialize(&bytes).is_err());
    assert!(r.is_ok(), "C14: XEnc::deserialize panics on huge trap count");
}

#[test]
fn c14_read_vec_huge() {
    let mut ser = Serializer::new();
    ser.write_leb128_u64(1u64 << 62).unwrap();
    let bytes = ser.finalize().to_vec();
    let r = crate::abe_policy::Right::deserialize(&bytes);
    assert!(r.is_err());
}
#[test]
fn c14_read_vec_overflow() {
    let mut ser = Serializer::new();
    ser.write_leb128_u64(u64::MAX).unwrap();
    let bytes = ser.finalize().to_vec();
    let r = std::panic::catch_unwind(|| crate::abe_policy::Right::deserialize(&bytes).is_err());
    assert!(r.is_ok(), "panicked");
}

#[test]
fn c15_multibyte_first() {
    let r = std::panic::catch_unwind(|| AccessPolicy::parse("é::a").is_ok());
    assert!(matches!(r, Ok(true)), "C15: {:?}", r.is_err());
}
#[test]
fn c15_multibyte_paren() {
    let r = std::panic::catch_unwind(|| AccessPolicy::parse("(Dé::a) && D::b"));
    match r { Ok(Ok(p)) => println!("{p:?}"), Ok(Err(e)) => panic!("C15: valid policy rejected: {e}"), Err(_) => panic!("C15: panic") }
}
#[test]
fn c15_or_multibyte() {
    let r = std::panic::catch_unwind(|| AccessPolicy::parse("D::a |é").is_ok());
    assert!(r.is_ok(), "C15: panic");
}
