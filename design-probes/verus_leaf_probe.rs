use vstd::prelude::*;
verus! {

#[derive(Copy, Clone, Debug, PartialEq, Eq, Structural)]
pub enum EncryptionHint {
    /// Hybridized encryption should be used.
    Hybridized,
    /// Classic encryption should be used.
    Classic,
}

impl EncryptionHint {
    pub open spec fn is_h(self) -> bool { self == EncryptionHint::Hybridized }
}

impl vstd::std_specs::ops::BitOrSpecImpl for EncryptionHint {
    open spec fn obeys_bitor_spec() -> bool { true }
    open spec fn bitor_req(self, rhs: Self) -> bool { true }
    open spec fn bitor_spec(self, rhs: Self) -> Self {
        if self.is_h() || rhs.is_h() { EncryptionHint::Hybridized } else { EncryptionHint::Classic }
    }
}

impl std::ops::BitOr for EncryptionHint {
    type Output = Self;

    fn bitor(self, rhs: Self) -> (r: Self::Output)
        ensures r.is_h() == (self.is_h() || rhs.is_h())
    {
        if self == Self::Hybridized || rhs == Self::Hybridized {
            Self::Hybridized
        } else {
            Self::Classic
        }
    }
}

fn xor_2<const LENGTH: usize>(lhs: &[u8; LENGTH], rhs: &[u8; LENGTH]) -> (out: [u8; LENGTH])
    ensures forall|i: int| 0 <= i < LENGTH ==> out[i] == lhs[i] ^ rhs[i]
{
    let mut out = [0; LENGTH];
    for pos in 0..LENGTH
        invariant forall|i: int| 0 <= i < pos ==> out[i] == lhs[i] ^ rhs[i]
    {
        out[pos] = lhs[pos] ^ rhs[pos];
    }
    out
}

} // verus!
fn main() {}
