
    use crate::kani_verif::*;
    use crate::abe_policy::{AttributeStatus, EncryptionHint, Right};
    use crate::core::primitives::{decaps, encaps, setup, update_msk, usk_keygen};
    use crate::vcollections::{HashMap, HashSet};

    macro_rules! crypto_stubs {
        ($(#[$m:meta])* fn $name:ident() $body:block) => {
            #[kani::proof]
            #[kani::stub(tiny_keccak::Sha3::v256, hstub::v256)]
            #[kani::stub(tiny_keccak::Sha3::v384, hstub::v384)]
            #[kani::stub(tiny_keccak::Sha3::v512, hstub::v512)]
            #[kani::stub(<tiny_keccak::Sha3 as tiny_keccak::Hasher>::update, hstub::sha3_update)]
            #[kani::stub(<tiny_keccak::Sha3 as tiny_keccak::Hasher>::finalize, hstub::sha3_finalize)]
            #[kani::stub(tiny_keccak::Kmac::v256, hstub::kmac_v256)]
            #[kani::stub(<tiny_keccak::Kmac as tiny_keccak::Hasher>::update, hstub::kmac_update)]
            #[kani::stub(<tiny_keccak::Kmac as tiny_keccak::Hasher>::finalize, hstub::kmac_finalize)]
            #[kani::stub(alloc::fmt::format, hstub::fmt_stub)]
            #[kani::stub(zeroize::optimization_barrier, hstub::noop_barrier)]
            $(#[$m])*
            fn $name() $body
        };
    }

    crypto_stubs! {
        #[kani::unwind(4)]
        fn l3_c_roundtrip_narrow() {
            use crate::core::{primitives as p, RightSecretKey, UserId, UserSecretKey};
            use crate::core::nike::ElGamal;
            use crate::traits::Nike;
            use crate::data_struct::RevisionVec;
            use cosmian_crypto_core::Secret;
            use crate::vcollections::LinkedList;
            type Sk = <ElGamal as Nike>::SecretKey;
            type Pk = <ElGamal as Nike>::PublicKey;
            let mut rng = SymRng;
            let s: u8 = kani::any(); let t0: u8 = kani::any(); let t1: u8 = kani::any(); let a0: u8 = kani::any();
            kani::assume(s < 251 && s != 0 && t0 < 251 && t0 != 0 && t1 < 251 && t1 != 0 && a0 < 251);
            let s = Sk { 0: s }; let t0 = Sk { 0: t0 }; let t1 = Sk { 0: t1 }; let a0 = Sk { 0: a0 };
            let a1 = ((&s - &(&t0 * &a0)) / &t1).unwrap();
            let h = Pk::from(&s);
            let p0 = Pk::from(&t0); let p1 = Pk::from(&t1);
            let x1: u8 = kani::any(); let x2: u8 = kani::any();
            kani::assume(x1 < 251 && x2 < 251 && x1 != x2);
            let sk1 = RightSecretKey::Classic { sk: Sk { 0: x1 } };
            let sk2 = RightSecretKey::Classic { sk: Sk { 0: x2 } };
            let pk1 = sk1.cpk(&h);
            let mut id = LinkedList::new(); id.push_back(a0); id.push_back(a1);
            let mut secrets: RevisionVec<crate::abe_policy::Right, RightSecretKey> = RevisionVec::new();
            let holds_1: bool = true;
            secrets.create_chain_with_single_value(crate::abe_policy::Right(vec![2u8]), sk2);
            if holds_1 { secrets.create_chain_with_single_value(crate::abe_policy::Right(vec![1u8]), sk1); }
            let usk = UserSecretKey { id: UserId(id), ps: vec![p0.clone(), p1.clone()], secrets, signature: None };
            let S = Secret::<32>::random(&mut rng);
            let r = <Sk as crate::traits::Sampling>::hash(&*S);
            kani::assume(r.0 != 0);
            let c = vec![&p0 * &r, &p1 * &r];
            let (ss, enc) = super::c_encaps(S, c, r, vec![&pk1]).unwrap();
            let res = p::decaps(&mut rng, &usk, &enc).unwrap();
            if holds_1 { assert!(res == Some(ss)); } else { assert!(res.is_none()); }
        }
    }

    crypto_stubs! {
        #[kani::unwind(4)]
        fn c05_refresh_subsequence_m2_u2() {
            use crate::core::{MasterSecretKey, RightSecretKey, TracingSecretKey};
            use crate::core::nike::ElGamal;
            use crate::traits::Nike;
            use crate::data_struct::{RevisionMap, RevisionVec};
            use crate::vcollections::LinkedList;
            type Sk = <ElGamal as Nike>::SecretKey;
            // four pairwise distinct secrets t1..t4 (fresh-draw assumption)
            let v: [u8; 4] = kani::any();
            kani::assume(v[0] < 251 && v[1] < 251 && v[2] < 251 && v[3] < 251);
            kani::assume(v[0] != v[1] && v[0] != v[2] && v[0] != v[3] && v[1] != v[2] && v[1] != v[3] && v[2] != v[3]);
            let sk = |i: usize| RightSecretKey::Classic { sk: Sk { 0: v[i] } };
            let r1 = Right(vec![1u8]);
            // master chain after prune + rekey: [t4, t3]; user chain (never refreshed since t2): [t2, t1]
            let mut secrets: RevisionMap<Right, (bool, RightSecretKey)> = RevisionMap::new();
            secrets.insert(r1.clone(), (true, sk(2)));
            secrets.insert(r1.clone(), (true, sk(3)));
            let msk = MasterSecretKey {
                tsk: TracingSecretKey { s: Sk { 0: 1 }, tracers: LinkedList::new(), users: HashSet::new() },
                secrets,
                signing_key: None,
                access_structure: crate::abe_policy::AccessStructure::new(),
            };
            let mut uch = LinkedList::new(); uch.push_back(sk(1)); uch.push_back(sk(0));
            let mut usk: RevisionVec<Right, RightSecretKey> = RevisionVec::new();
            usk.insert_new_chain(r1.clone(), uch);
            let out = super::refresh_coordinate_keys(&msk, usk);
            assert!(out.len() == 1);
            // C05: the refreshed chain must not be longer than the master chain (sub-sequence)
            assert!(out.count_elements() <= 2, "refreshed key holds a secret the master key no longer has");
        }
    }

    crypto_stubs! {
        #[kani::unwind(5)]
        fn c04_revisions_cover_all_21() {
            use crate::data_struct::RevisionVec;
            use crate::vcollections::LinkedList;
            let a: u8 = kani::any(); let b: u8 = kani::any(); let c: u8 = kani::any();
            let mut l1 = LinkedList::new(); l1.push_back(a); l1.push_back(b);
            let mut rv: RevisionVec<u8, u8> = RevisionVec::new();
            rv.insert_new_chain(1, l1);
            rv.create_chain_with_single_value(2, c);
            let mut yielded = 0usize;
            let mut rounds = 0usize;
            let mut it = rv.revisions();
            while rounds < 4 {
                match it.next() { Some(rev) => { yielded += rev.len(); } None => break }
                rounds += 1;
            }
            assert!(rounds < 4, "iterator must terminate");
            assert!(yielded == rv.count_elements(), "every (key, secret) pair must be yielded exactly once");
        }
    }

    crypto_stubs! {
        #[kani::unwind(6)]
        fn c14_revisions_terminate_empty() {
            use crate::data_struct::RevisionVec;
            let rv: RevisionVec<u8, u8> = RevisionVec::new();
            let mut it = rv.revisions();
            let first = it.next();
            // measure contract: a Some must consume at least one element; with zero chains there is nothing to consume
            assert!(first.is_none(), "iterator over zero chains must be empty");
        }
    }

    crypto_stubs! {
        #[kani::unwind(5)]
        fn l3_decaps_coverage_21x1() {
            use crate::core::{RightSecretKey, UserId, UserSecretKey, XEnc, Encapsulations};
            use crate::core::nike::ElGamal;
            use crate::traits::Nike;
            use crate::data_struct::RevisionVec;
            use crate::vcollections::LinkedList;
            type Sk = <ElGamal as Nike>::SecretKey;
            type Pk = <ElGamal as Nike>::PublicKey;
            let mut rng = SymRng;
            let v: [u8; 9] = kani::any();
            kani::assume(v[0] < 251 && v[1] < 251 && v[2] < 251 && v[3] < 251 && v[4] < 251 && v[5] < 251 && v[6] < 251 && v[7] < 251 && v[8] < 251);
            let mut id = LinkedList::new(); id.push_back(Sk { 0: v[0] }); id.push_back(Sk { 0: v[1] });
            let mut ch1 = LinkedList::new();
            ch1.push_back(RightSecretKey::Classic { sk: Sk { 0: v[2] } });
            ch1.push_back(RightSecretKey::Classic { sk: Sk { 0: v[3] } });
            let mut secrets: RevisionVec<crate::abe_policy::Right, RightSecretKey> = RevisionVec::new();
            secrets.insert_new_chain(crate::abe_policy::Right(vec![1u8]), ch1);
            secrets.create_chain_with_single_value(crate::abe_policy::Right(vec![2u8]), RightSecretKey::Classic { sk: Sk { 0: v[4] } });
            let usk = UserSecretKey { id: UserId(id), ps: vec![Pk { 0: v[5] }, Pk { 0: v[6] }], secrets, signature: None };
            let enc = XEnc { tag: kani::any(), c: vec![Pk { 0: v[7] }, Pk { 0: v[8] }], encapsulations: Encapsulations::CEncs(vec![kani::any()]) };
            let before = unsafe { oracle::N };
            let res = super::decaps(&mut rng, &usk, &enc).unwrap();
            let after = unsafe { oracle::N };
            let mut h = 0usize; let mut i = 0usize;
            while i < oracle::MAXQ {
                if i >= before && i < after && unsafe { oracle::DOMS[i] == oracle::DOM_SHA3_256 && oracle::LENS[i] == 33 } { h += 1; }
                i += 1;
            }
            kani::cover!(res.is_none());
            if res.is_none() { assert!(h == 3, "every secret of every chain must be tried against the encapsulation"); }
        }
    }

    crypto_stubs! {
        #[kani::unwind(5)]
        fn micro_d_vmap_right_list() {
            use crate::vcollections::LinkedList;
            let mut m: HashMap<Right, LinkedList<u8>> = HashMap::new();
            let a: u8 = kani::any(); let b: u8 = kani::any();
            let mut l1 = LinkedList::new(); l1.push_front(a);
            let mut l2 = LinkedList::new(); l2.push_front(b);
            m.insert(Right(vec![1u8]), l1);
            m.insert(Right(vec![2u8]), l2);
            assert!(*m.get(&Right(vec![2u8])).unwrap().front().unwrap() == b);
            m.get_mut(&Right(vec![1u8])).unwrap().push_front(b);
            assert!(m.get(&Right(vec![1u8])).unwrap().len() == 2);
        }
    }

    crypto_stubs! {
        #[kani::unwind(4)]
        fn micro_e_revmap_right_scalar() {
            use crate::data_struct::RevisionMap;
            let mut m: RevisionMap<Right, u8> = RevisionMap::new();
            let a: u8 = kani::any(); let b: u8 = kani::any(); let c: u8 = kani::any();
            m.insert(Right(vec![1u8]), a);
            m.insert(Right(vec![2u8]), b);
            m.insert(Right(vec![1u8]), c);
            assert!(m.chain_length(&Right(vec![1u8])) == 2);
            assert!(*m.get_latest(&Right(vec![1u8])).unwrap() == c);
        }
    }

    crypto_stubs! {
        #[kani::unwind(4)]
        fn micro_f_revmap_right_two_inserts() {
            use crate::data_struct::RevisionMap;
            let mut m: RevisionMap<Right, u8> = RevisionMap::new();
            let a: u8 = kani::any(); let b: u8 = kani::any();
            m.insert(Right(vec![1u8]), a);
            m.insert(Right(vec![2u8]), b);
            assert!(*m.get_latest(&Right(vec![2u8])).unwrap() == b);
        }
    }

    crypto_stubs! {
        #[kani::unwind(4)]
        fn micro_a_veceq() {
            let x: u8 = kani::any(); let y: u8 = kani::any();
            let a = Right(vec![x]); let b = Right(vec![y]);
            assert!((a == b) == (x == y));
        }
    }

    crypto_stubs! {
        #[kani::unwind(4)]
        fn micro_b_vmap_right() {
            let mut m: HashMap<Right, u8> = HashMap::new();
            let a: u8 = kani::any(); let b: u8 = kani::any();
            m.insert(Right(vec![1u8]), a);
            m.insert(Right(vec![2u8]), b);
            assert!(*m.get(&Right(vec![2u8])).unwrap() == b);
            assert!(*m.get(&Right(vec![1u8])).unwrap() == a);
        }
    }

    crypto_stubs! {
        #[kani::unwind(4)]
        fn micro_c_revmap_lenkeys() {
            use crate::data_struct::RevisionMap;
            let mut m: RevisionMap<Right, (bool, u8)> = RevisionMap::new();
            let a: u8 = kani::any(); let b: u8 = kani::any(); let c: u8 = kani::any();
            let f: bool = kani::any();
            let r1 = Right(vec![]); let r2 = Right(vec![0u8]);
            m.insert(Right(vec![]), (f, a));
            m.insert(Right(vec![0u8]), (true, b));
            m.insert(Right(vec![]), (true, c));
            assert!(m.chain_length(&r1) == 2);
            assert!(m.get_latest(&r1).unwrap().1 == c);
            assert!(m.get_latest(&r2).unwrap().1 == b);
        }
    }

    crypto_stubs! {
        #[kani::unwind(4)]
        fn micro_revmap_rightkeys() {
            use crate::data_struct::RevisionMap;
            let mut m: RevisionMap<Right, (bool, u8)> = RevisionMap::new();
            let a: u8 = kani::any(); let b: u8 = kani::any(); let c: u8 = kani::any();
            let f: bool = kani::any();
            let r1 = Right(vec![1u8]); let r2 = Right(vec![2u8]);
            m.insert(Right(vec![1u8]), (f, a));
            m.insert(Right(vec![2u8]), (true, b));
            m.insert(Right(vec![1u8]), (true, c));
            assert!(m.chain_length(&r1) == 2);
            assert!(m.get_latest(&r1).unwrap().1 == c);
            assert!(m.get_latest(&r2).unwrap().1 == b);
        }
    }

    crypto_stubs! {
        #[kani::unwind(4)]
        fn micro_revmap() {
            use crate::data_struct::RevisionMap;
            let mut m: RevisionMap<u8, (bool, u8)> = RevisionMap::new();
            let a: u8 = kani::any(); let b: u8 = kani::any(); let c: u8 = kani::any();
            let f: bool = kani::any();
            m.insert(1, (f, a));
            m.insert(2, (true, b));
            m.insert(1, (true, c));
            assert!(m.chain_length(&1) == 2);
            assert!(m.get_latest(&1).unwrap().1 == c);
            assert!(m.get_latest(&2).unwrap().1 == b);
            let v: Vec<u8> = m.get(&1).unwrap().iter().map(|x| x.1).collect();
            assert!(v[1] == a);
        }
    }

    crypto_stubs! {
        #[kani::unwind(4)]
        fn l2_rekey_flag_direct() {
            use crate::core::{MasterSecretKey, RightSecretKey, TracingSecretKey};
            use crate::core::nike::ElGamal;
            use crate::traits::Nike;
            use crate::data_struct::RevisionMap;
            use crate::vcollections::LinkedList;
            type Sk = <ElGamal as Nike>::SecretKey;
            let mut rng = SymRng;
            let mk = |x: u8| { kani::assume(x < 251); Sk { 0: x } };
            let r1 = Right(vec![1u8]);
            let r2 = Right(vec![2u8]);
            let act1: bool = kani::any(); let act2: bool = kani::any();
            let mut secrets: RevisionMap<Right, (bool, RightSecretKey)> = RevisionMap::new();
            secrets.insert(r1.clone(), (act1, RightSecretKey::Classic { sk: mk(kani::any()) }));
            secrets.insert(r2.clone(), (act2, RightSecretKey::Classic { sk: mk(kani::any()) }));
            let mut msk = MasterSecretKey {
                tsk: TracingSecretKey { s: mk(kani::any()), tracers: LinkedList::new(), users: HashSet::new() },
                secrets,
                signing_key: None,
                access_structure: crate::abe_policy::AccessStructure::new(),
            };
            let mut set = HashSet::new();
            set.insert(r1.clone());
            super::rekey(&mut rng, &mut msk, set).unwrap();
            assert!(msk.secrets.chain_length(&r1) == 2);
            assert!(msk.secrets.chain_length(&r2) == 1);
            assert!(msk.secrets.get_latest(&r2).unwrap().0 == act2);
            // C06 contract of rekey: the fresh front keeps the activation flag
            assert!(msk.secrets.get_latest(&r1).unwrap().0 == act1);
        }
    }

    crypto_stubs! {
        #[kani::unwind(73)]
        fn c01_roundtrip_1right_classic() {
            let mut rng = SymRng;
            let mut msk = setup(1, &mut rng).unwrap();
            let r1 = Right(vec![1u8]);
            let mut rights = HashMap::new();
            rights.insert(r1.clone(), (EncryptionHint::Classic, AttributeStatus::EncryptDecrypt));
            update_msk(&mut rng, &mut msk, rights).unwrap();
            let mpk = msk.mpk().unwrap();
            let mut set = HashSet::new();
            set.insert(r1.clone());
            let usk = usk_keygen(&mut rng, &mut msk, set.clone()).unwrap();
            let (ss, enc) = encaps(&mut rng, &mpk, &set).unwrap();
            let res = decaps(&mut rng, &usk, &enc).unwrap();
            assert!(res == Some(ss));
        }
    }
